#![no_main]
//! C14/C08 totality, coverage-guided: any byte string as decoder input against a short reference.
//! Oracle inside the target: returns Ok or Err; a panic, an abort or an over-sized allocation
//! (-malloc_limit_mb / -rss_limit_mb) is reported by libFuzzer as a crash.
use libfuzzer_sys::fuzz_target;
fuzz_target!(|data: &[u8]| {
    if data.is_empty() {
        return;
    }
    let n = (data[0] as usize % 8).min(data.len() - 1);
    let (reference, payload) = data[1..].split_at(n);
    if let Ok(frames) = ggrs::verif_hooks::decode(reference, payload) {
        // whatever decodes must re-encode to something that decodes to the same frames
        let enc = ggrs::verif_hooks::encode(reference, frames.iter());
        let back = ggrs::verif_hooks::decode(reference, &enc).expect("re-encoded frames must decode");
        assert_eq!(back, frames, "decode(encode(decode(x))) != decode(x)");
    }
});
