#![no_main]
//! C01-C04 (and panics anywhere) on small simulated sessions whose whole configuration, schedule and
//! fault plan are decoded from the fuzzer's bytes; coverage feedback comes from the instrumented ggrs.
use arbitrary::Unstructured;
use libfuzzer_sys::fuzz_target;
use vcheck::props::common::{end_state_c01, first_violation};
use vcheck::sim::net::{Fault, LinkProfile};
use vcheck::sim::scenario::*;
use vcheck::sim::world::{run, RunOpts, QUIET_PANICS};

fn decode(u: &mut Unstructured) -> arbitrary::Result<Scenario> {
    let np = u.int_in_range(2..=3usize)?;
    let mut sc = Scenario::basic(u.arbitrary::<u64>()?, np);
    for p in sc.peers.iter_mut() {
        p.locals = u.int_in_range(1..=2u8)?;
        p.delay = u.int_in_range(0..=4u8)?;
        p.slow = *u.choose(&[0u8, 0, 20, 40])?;
    }
    sc.max_pred = *u.choose(&[1u8, 2, 3, 4, 8, 12])?;
    sc.sparse = u.arbitrary()?;
    sc.predictor = u.int_in_range(0..=1u8)?;
    sc.wide = u.arbitrary()?;
    sc.desync = *u.choose(&[0u8, 1, 3])?;
    let lat = *u.choose(&[0u16, 10, 40])?;
    sc.link = LinkProfile { loss: *u.choose(&[0u8, 10, 30])?, dup: *u.choose(&[0u8, 20])?, lat_min: lat, lat_max: lat + *u.choose(&[0u16, 30])? };
    sc.sched = u.int_in_range(0..=1u8)?;
    sc.ticks = u.int_in_range(60..=260u32)?;
    sc.settle = 100;
    sc.notify_ms = 3000;
    sc.timeout_ms = 20_000;
    if u.ratio(1, 2)? {
        sc.specs.push(SpecSpec { host: u.int_in_range(0..=(np as u8 - 1))?, max_behind: u.int_in_range(1..=20u8)?, catchup: u.int_in_range(1..=5u8)?, slow: *u.choose(&[0u8, 50])?, window: sc.max_pred });
    }
    let nf = u.int_in_range(0..=8usize)?;
    for _ in 0..nf {
        let from = u.int_in_range(1..=np as u8)?;
        let mut to = u.int_in_range(1..=np as u8)?;
        if to == from {
            to = if from == 1 { 2 } else { 1 };
        }
        let k = u.int_in_range(1..=400u32)?;
        sc.faults.push(match u.int_in_range(0..=2u8)? {
            0 => Fault::Drop { from, to, k },
            1 => Fault::Dup { from, to, k },
            _ => Fault::Delay { from, to, k, ms: u.int_in_range(20..=400u16)? },
        });
    }
    let no = u.int_in_range(0..=3usize)?;
    for _ in 0..no {
        let tick = u.int_in_range(20..=sc.ticks)?;
        let from = u.int_in_range(1..=np as u8)?;
        let to = if from == 1 { 2 } else { 1 };
        if u.ratio(1, 2)? {
            sc.ops.push(Op::Outage { tick, from, to, len_ms: u.int_in_range(50..=1500u32)? });
        } else {
            sc.ops.push(Op::Pause { tick, node: from - 1, ticks: u.int_in_range(1..=40u32)? });
        }
    }
    Ok(sc)
}

fuzz_target!(|data: &[u8]| {
    let mut u = Unstructured::new(data);
    let Ok(sc) = decode(&mut u) else { return };
    QUIET_PANICS.with(|q| q.set(true));
    let out = run(&sc, &RunOpts::default());
    if let Some((sig, msg)) = first_violation(&out, &["C01", "C02", "C03", "C04"]).or_else(|| end_state_c01(&sc, &out)) {
        panic!("VIOLATION {sig}: {msg}\nscenario: {}", serde_json::to_string(&sc).unwrap_or_default());
    }
});
