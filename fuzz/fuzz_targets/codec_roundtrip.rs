#![no_main]
//! C14 round trip, coverage-guided: structured (reference, inputs) built from the fuzzer's bytes.
use arbitrary::Unstructured;
use libfuzzer_sys::fuzz_target;
fuzz_target!(|data: &[u8]| {
    let mut u = Unstructured::new(data);
    let Ok(rl) = u.int_in_range(0..=24usize) else { return };
    let mut chunk = |u: &mut Unstructured, max: usize| -> Vec<u8> {
        let n = u.int_in_range(0..=max).unwrap_or(0);
        let mode = u.int_in_range(0..=3u8).unwrap_or(0);
        (0..n)
            .map(|_| match mode {
                0 => 0u8,
                1 => 0xff,
                _ => u.arbitrary::<u8>().unwrap_or(0),
            })
            .collect()
    };
    let reference = chunk(&mut u, rl);
    let count = u.int_in_range(0..=10usize).unwrap_or(0);
    let mut inputs = Vec::new();
    for _ in 0..count {
        let big = u.ratio(1, 40).unwrap_or(false);
        inputs.push(chunk(&mut u, if big { 70000.min(65535) } else { 24 }));
    }
    let enc = ggrs::verif_hooks::encode(&reference, inputs.iter());
    let dec = ggrs::verif_hooks::decode(&reference, &enc).expect("decode(encode(x)) must succeed");
    assert_eq!(dec, inputs, "decode(encode(x)) != x");
});
