//! C04 - speculation is bounded by the prediction window; lockstep never speculates.
use super::common::*;
use crate::engine::*;
use crate::gen::*;
use crate::sim::scenario::*;
use proptest::prelude::*;

pub const PROPS: &[&str] = &["C04"];

pub fn eval(sc: &Scenario) -> CaseResult {
    eval_out(sc).1
}

pub fn eval_drop_alive(sc: &Scenario) -> CaseResult {
    let (out, mut r) = eval_out(sc);
    let dropped = out.peers[0].cs.iter().any(|c| c.0);
    r.nontrivial = dropped && out.peers[0].current_frame > 80;
    r.classes.push("remote_dropped_while_alive");
    r
}

fn eval_out(sc: &Scenario) -> (crate::sim::world::Outcome, CaseResult) {
    let (out, mut r) = eval_core(sc, PROPS, false);
    if r.violation.is_none() {
        // a spectator speculates with a window of 0: it never simulates a frame its host has not confirmed
        r.violation = out.viols.iter().find(|v| v.clause == "C06.beyond_confirmed").map(|v| ("C04.spectator_beyond_confirmed".to_string(), format!("[{} tick {}] {}", v.node, v.tick, v.msg)));
    }
    if r.violation.is_none() {
        // ... and a spectator call that hands out nothing (an error) leaves current_frame() unchanged
        r.violation = out.viols.iter().find(|v| v.clause == "C06.err_moved").map(|v| ("C04.spectator_stall_moved".to_string(), format!("[{} tick {}] {}", v.node, v.tick, v.msg)));
    }
    let eq: u64 = out.peers.iter().map(|p| p.gap_eq).sum();
    let stalls: u64 = out.peers.iter().map(|p| p.stalls).sum();
    let ls: u64 = out.peers.iter().map(|p| p.lockstep_stalls).sum();
    let adv: u64 = out.peers.iter().map(|p| p.stats.first_sims).sum();
    r.nontrivial = if sc.max_pred == 0 { ls > 0 && adv > 20 } else { stalls > 0 && eq > 0 };
    if sc.max_pred == 0 && ls > 0 {
        r.classes.push("lockstep_stall");
    }
    if sc.peers.iter().any(|p| p.use_wait) {
        r.classes.push("advance_frame_with_wait");
    }
    let mid: u64 = out.peers.iter().map(|p| p.midwait_deliveries).sum();
    if mid > 0 {
        r.classes.push("midwait_delivery");
    }
    r.counters.push(("wait_calls_with_a_delivery_after_the_first_poll", mid));
    r.counters.push(("max_gap_over_confirmed", out.peers.iter().map(|p| p.max_gap.max(0) as u64).max().unwrap_or(0)));
    r.counters.push(("first_sims_at_window_limit", eq));
    r.counters.push(("lockstep_stalls", ls));
    (out, r)
}

pub fn gen(tier: Tier) -> BoxedStrategy<Scenario> {
    let mut p = GenParams::default();
    // tick rates other than the default 60 fps (the builder's with_fps follows the game's tick rate)
    p.fps = vec![60, 60, 60, 30, 120, 144];
    p.windows = vec![(4, 0), (4, 1), (2, 2), (2, 3), (2, 4), (1, 5), (1, 6), (1, 7), (2, 8), (1, 9), (1, 10), (1, 11), (2, 12)];
    p.ticks = tier.pick((200, 900), (1000, 3000));
    p.outages = 0;
    p.timeouts = vec![(30_000, 60_000)];
    let max_len = tier.pick(8_000u32, 30_000u32);
    (scenario(&p), any::<u16>(), any::<u16>(), 200u32..max_len, any::<bool>(), any::<u8>())
        .prop_map(|(mut sc, a, t, len, both, w)| {
            let links = all_links(&sc);
            let (from, to) = links[idx(a, links.len())];
            let tick = 40 + idx(t, (sc.ticks.saturating_sub(60)).max(1) as usize) as u32;
            sc.ops.push(Op::Outage { tick, from, to, len_ms: len });
            if both {
                sc.ops.push(Op::Outage { tick, from: to, to: from, len_ms: len });
            }
            if sc.max_pred == 0 && w % 3 != 2 {
                // the wait helper on every peer, or (w % 3 == 1) on a seeded non-empty subset of them
                let mask = if w % 3 == 0 { 0xff } else { ((w >> 2) | 1) as u32 };
                for (i, p) in sc.peers.iter_mut().enumerate() {
                    p.use_wait = (mask >> (i % 6)) & 1 == 1;
                }
            }
            sc
        })
        .boxed()
}

/// three peers; a peer with a LOWER handle than a still-connected one dies (equal amounts at both
/// survivors: loss-free zero-latency link), later the connected higher-handle peer's link to the
/// observer is cut for less than the timeout: the observer must stall at the window although one of
/// the players in front of the starving one is disconnected
pub fn after_drop_case(i: u64, seed: u64) -> Scenario {
    let r = crate::sim::types::mix(seed ^ 0xc04d, i);
    let mut sc = Scenario::basic(r, 3);
    sc.max_pred = [0u8, 1, 2, 4, 8, 12][(r % 6) as usize];
    sc.sparse = sc.max_pred > 0 && (r >> 8) % 3 == 0;
    let d = [0u8, 0, 2][((r >> 12) % 3) as usize];
    for p in sc.peers.iter_mut() {
        p.delay = d;
        p.locals = if (r >> 16) % 4 == 0 { 2 } else { 1 };
    }
    sc.sched = 0;
    sc.notify_ms = 300;
    sc.timeout_ms = 1200;
    let (victim, observer, starver) = if (r >> 20) % 2 == 0 { (0u8, 1u8, 2u8) } else { (1u8, 0u8, 2u8) };
    let t1 = 70 + ((r >> 24) % 40) as u32;
    sc.ops.push(Op::Kill { tick: t1, peer: victim });
    let t2 = t1 + 1200 / 16 + 40 + ((r >> 32) % 40) as u32;
    let len = 300 + ((r >> 40) % 600) as u32; // < timeout
    sc.ops.push(Op::Outage { tick: t2, from: crate::sim::types::peer_addr(starver as usize), to: crate::sim::types::peer_addr(observer as usize), len_ms: len });
    sc.ticks = t2 + len / 16 + 60;
    sc.settle = 100;
    if sc.max_pred == 0 && (r >> 50) % 2 == 0 {
        for p in sc.peers.iter_mut() {
            p.use_wait = true;
        }
    }
    sc
}

/// two peers (plus sometimes a spectator on the dropping side); peer 0 drops the remote player with
/// `disconnect_player` while the remote is alive and keeps sending for a while (its later input packets arrive at
/// an endpoint that is disconnected but not yet shut down); mostly lockstep, partly through the wait helper
pub fn drop_alive_case(i: u64, seed: u64) -> Scenario {
    let r = crate::sim::types::mix(seed ^ 0xa11e, i);
    let mut sc = Scenario::basic(r, 2);
    sc.max_pred = [0u8, 0, 0, 1, 2, 8][(r % 6) as usize];
    let d = [0u8, 1, 2, 3][((r >> 4) % 4) as usize];
    for p in sc.peers.iter_mut() {
        p.delay = d;
        p.locals = if (r >> 8) % 4 == 0 { 2 } else { 1 };
    }
    let lat = [0u16, 5, 20, 40, 70][((r >> 12) % 5) as usize];
    sc.link = crate::sim::net::LinkProfile { loss: [0u8, 0, 10][((r >> 16) % 3) as usize], dup: 0, lat_min: lat, lat_max: lat + [0u16, 0, 30][((r >> 18) % 3) as usize] };
    sc.sched = ((r >> 20) % 2) as u8;
    sc.predictor = ((r >> 21) % 2) as u8;
    sc.notify_ms = 500;
    sc.timeout_ms = 2000;
    let t1 = 50 + ((r >> 24) % 150) as u32;
    let handle = sc.peers[0].locals;
    sc.ops.push(Op::Disconnect { tick: t1, peer: 0, handle });
    // the dropped peer keeps running: for a few ticks, for a second, or until it has timed out peer 0 and plays on alone
    match (r >> 32) % 3 {
        0 => sc.ops.push(Op::Kill { tick: t1 + 2 + ((r >> 36) % 20) as u32, peer: 1 }),
        1 => sc.ops.push(Op::Kill { tick: t1 + 60 + ((r >> 36) % 60) as u32, peer: 1 }),
        _ => {}
    }
    if (r >> 44) % 3 == 0 {
        sc.specs.push(SpecSpec { host: 0, max_behind: 10, catchup: 2, slow: 0, window: sc.max_pred });
    }
    if sc.max_pred == 0 && (r >> 48) % 2 == 0 {
        for p in sc.peers.iter_mut() {
            p.use_wait = true;
        }
    }
    sc.ticks = t1 + 240;
    sc.settle = 60;
    sc
}

pub fn run(ctx: &Ctx) -> PropReport {
    let mut rep = PropReport::new("C04", "exploration");
    let tier = ctx.tier;
    let rule = "windows 0..=12 (about 20% each on 0 and 1), delays 0..=6, sparse on/off, one link starved for 0.2-30 s with the disconnect timeout raised to 60 s; oracle: every first simulation of frame f satisfies f - C <= max_prediction with C = newest frame held for all connected players (session accessor, and independently the network ledger of delivered input frames); every Load is <= max_prediction behind the game frame; window 0: never Save/Load, only Confirmed/Disconnected inputs, a call without Advance leaves current_frame() unchanged (also through advance_frame_with_wait); non-trivial = a call stalled AND the bound was reached with equality (rollback) / >=1 lockstep stall and >20 frames advanced (lockstep)";
    rep.parts.push(run_random(ctx, "starved", rule, || gen(tier), ctx.tier.pick(6000, 24000), eval));
    let seed = ctx.seed;
    rep.part(|| run_enum(ctx, "starved_after_drop",
        "seeded 3-peer sessions (windows {0,1,2,4,8,12}, sparse, delays, 1-2 local players): a peer with a lower handle than a still-connected one dies and is timed out by both survivors with the same cut-off, then the connected higher-handle peer's link to the observer is cut for 0.3-0.9 s (below the timeout): same oracle - the observer must stall at the window / not advance in lockstep",
        ctx.tier.pick(1500, 8000), move |i| after_drop_case(i, seed), eval, false));
    rep.part(|| run_enum(ctx, "drop_alive",
        "seeded 2-peer sessions (windows {0,0,0,1,2,8}, delays 0..=3, 1-2 local players, latency 0-100 ms, some loss, sometimes a spectator, partly through the wait helper): peer 0 drops the remote player with disconnect_player while the remote is alive and keeps sending (for a few ticks / a second / until it has timed out peer 0): same oracle - in lockstep no Save/Load and only Confirmed or Disconnected inputs before and after the drop, a call without Advance leaves current_frame() unchanged; non-trivial = the drop was carried out and peer 0 advanced > 20 frames afterwards",
        ctx.tier.pick(2000, 10000), move |i| drop_alive_case(i, seed), eval_drop_alive, false));
    rep.floors.push(("starved".into(), 0.3));
    rep.assumptions = vec!["advance_frame_with_wait runs under an auto-ticking virtual clock (100 us per clock read) so its spin loop terminates".into()];
    rep
}
