//! C17 - session behaviour is a function of its inputs, not of hash order.
use super::common::*;
use crate::engine::*;
use crate::gen::*;
use crate::sim::scenario::*;
use crate::sim::types::*;
use crate::sim::world::*;
use proptest::prelude::*;
use std::collections::BTreeMap;

pub const PROPS: &[&str] = &["C17"];

/// everything the property lists as observable, per session
fn observables(o: &Outcome) -> Vec<(String, String)> {
    let mut v = Vec::new();
    for (i, p) in o.peers.iter().enumerate() {
        v.push((format!("peer{i}.request_lists"), format!("{:x}", p.trace_hash)));
        let mut h = 0u64;
        for a in &p.after {
            h = mix(h, *a);
        }
        v.push((format!("peer{i}.game_states"), format!("{:x} frame={} conf={}", h, p.current_frame, p.last_conf)));
        let mut by: BTreeMap<Option<u8>, Vec<&(u64, Ev)>> = BTreeMap::new();
        for e in &p.events {
            by.entry(e.1.addr()).or_default().push(e);
        }
        for (a, evs) in by {
            v.push((format!("peer{i}.events[{a:?}]"), format!("{:?}", evs)));
        }
        v.push((format!("peer{i}.panicked"), format!("{}", p.panicked)));
    }
    for (i, s) in o.specs.iter().enumerate() {
        v.push((format!("spec{i}.request_lists"), format!("{:x} frame={}", s.trace_hash, s.current_frame)));
        v.push((format!("spec{i}.events"), format!("{:?}", s.events)));
    }
    // premise check: the per-link sent streams must be identical too (localises a divergence)
    for ((a, b), l) in &o.net.ledgers {
        v.push((format!("link{a}->{b}.sent"), format!("{:?} newest_input={}", l.sent, l.input_sent_max)));
    }
    v
}

pub fn eval(sc: &Scenario) -> CaseResult {
    // replica 0 in this thread, replicas 1 and 2 in fresh OS threads (fresh RandomState keys for
    // every HashMap), with different handshake random numbers
    let out = run(sc, &RunOpts::default());
    let mut r = CaseResult::default();
    r.classes = base_classes(sc, &out);
    r.counters = base_counters(&out);
    r.summary = summary(sc, &out);
    let base = observables(&out);
    for rep in 1..=3u64 {
        let sc2 = sc.clone();
        let h = std::thread::Builder::new().stack_size(32 << 20).spawn(move || {
            QUIET_PANICS.with(|q| q.set(true));
            let mut o = RunOpts::default();
            o.rand_xor = 0x1234_5678_9abc_def0u64.wrapping_mul(rep);
            // the third replica: all sessions draw the SAME magic number and the same nonces
            o.same_random_stream = rep == 3;
            observables(&run(&sc2, &o))
        });
        let other = match h.expect("spawn").join() {
            Ok(o) => o,
            Err(_) => {
                r.violation = Some(("C17.replica_crashed".into(), "a replica thread panicked outside the session".into()));
                break;
            }
        };
        if other != base {
            let (k, a, b) = base
                .iter()
                .zip(other.iter())
                .find(|(x, y)| x != y)
                .map(|(x, y)| (x.0.clone(), x.1.clone(), y.1.clone()))
                .unwrap_or_else(|| ("length".into(), format!("{}", base.len()), format!("{}", other.len())));
            let kind = k.split('.').nth(1).unwrap_or("x").split('[').next().unwrap_or("x").to_string();
            r.violation = Some((
                format!("C17.differs|{kind}"),
                format!("two executions of the same scenario (same calls, same packets, same clock; fresh hash-map seeds and different handshake numbers{}) differ in {k}: {} / {}", if rep == 3 { "; in the second one every session draws the same magic number and nonces" } else { "" }, &a[..a.len().min(400)], &b[..b.len().min(400)]),
            ));
            break;
        }
    }
    let multi = sc.peers.iter().any(|p| p.locals >= 2) || sc.peers.len() >= 3;
    r.nontrivial = multi && out.peers.iter().any(|p| p.last_conf > 50);
    if sc.ops.iter().any(|o| matches!(o, Op::Kill { .. })) {
        r.classes.push("peer_death");
    }
    if sc.ops.iter().any(|o| matches!(o, Op::SetDelay { .. })) {
        r.classes.push("delay_changes");
    }
    r.counters.push(("replica_runs", 4));
    r
}

pub fn gen(tier: Tier) -> BoxedStrategy<Scenario> {
    let mut p = GenParams::default();
    // tick rates other than the default 60 fps (the builder's with_fps follows the game's tick rate)
    p.fps = vec![60, 60, 60, 30, 120, 144];
    p.ticks = tier.pick((200, 700), (600, 2000));
    p.desync = vec![0, 1, 1, 2, 3, 5];
    p.windows.push((2, 0));
    (scenario(&p), any::<u8>(), any::<u16>(), proptest::collection::vec((any::<u16>(), any::<u16>(), 0u8..=6), 0..4))
        .prop_map(|(mut sc, k, kt, dl)| {
            // weight towards several local players per peer and three or more peers
            if k % 3 == 0 {
                for p in sc.peers.iter_mut() {
                    p.locals = 2;
                }
            }
            if k % 5 == 0 && sc.peers.len() == 2 {
                // a death (two-peer sessions: 3+-peer deaths panic for a known reason, C10)
                sc.ops.retain(|o| !matches!(o, Op::Pause { .. } | Op::Outage { .. }));
                sc.notify_ms = 300;
                sc.timeout_ms = 1000;
                let tick = 60 + idx(kt, sc.ticks.saturating_sub(100).max(1) as usize) as u32;
                sc.ops.push(Op::Kill { tick, peer: 1 });
            }
            if sc.desync > 0 && k % 7 == 0 {
                // a real desync: several DesyncDetected events can be raised by one call
                sc.ops.push(Op::Corrupt { peer: 0, frame: 30 });
            }
            let nh = sc.num_players();
            for (t, h, d) in dl {
                let tick = 20 + idx(t, sc.ticks.saturating_sub(30).max(1) as usize) as u32;
                sc.ops.push(Op::SetDelay { tick, handle: idx(h, nh) as u8, delay: d });
            }
            sc
        })
        .boxed()
}

/// Four peers L, A, B, X. X dies; a few ticks later - when X's last packets have reached everybody, so all hold
/// the same amount of its input - A drops it with `disconnect_player`. The link B -> L is slow (80..250 ms), so
/// when A's notice reaches L, the newest thing L has heard from B still says "X connected, last frame N-k": L
/// scans its endpoint map for the earliest cut-off, finds N-k, rolls back there (harmlessly: its own last frame
/// for X stays N) and keeps doing so until B's reports catch up. Which frame L rolls back to must not depend on the
/// order in which the map yields A (reports the drop) and B (reports the lowest frame). Windows of 24..40 frames keep
/// the repeated rollbacks inside the prediction window (beyond it the unchanged tree panics: C10's known finding).
pub fn stale_gossip_case(i: u64, seed: u64) -> Scenario {
    let r = mix(seed ^ 0x57a1e, i);
    let mut sc = Scenario::basic(r, 4);
    sc.max_pred = [32u8, 40, 24, 48][(r % 4) as usize];
    let d = [0u8, 0, 1, 2][((r >> 4) % 4) as usize];
    for p in sc.peers.iter_mut() {
        p.delay = d;
    }
    sc.sched = 0;
    sc.notify_ms = 5000;
    sc.timeout_ms = 10000;
    sc.predictor = ((r >> 8) % 2) as u8;
    let fast = (2 + (r >> 12) % 12) as u16;
    sc.link = crate::sim::net::LinkProfile { loss: 0, dup: 0, lat_min: fast, lat_max: fast };
    let (a, b) = if (r >> 16) % 2 == 0 { (1u8, 2u8) } else { (2u8, 1u8) };
    let slow = (80 + (r >> 20) % 170) as u16;
    let t0 = 90 + ((r >> 32) % 60) as u32;
    // slow only from shortly before the death on: the handshake and the start are over the fast links, so all four
    // peers run level (a peer that starts late over a slow link trails the others by up to a window)
    sc.ops.push(Op::Slow { tick: t0 - 40, from: peer_addr(b as usize), to: peer_addr(0), len_ms: 4000, extra_ms: slow as u32 });
    sc.ops.push(Op::Kill { tick: t0, peer: 3 });
    // at least (fast latency) later, so that everybody holds X's last input
    let after = (fast as u32 + 15) / 16 + 1 + ((r >> 40) % 4) as u32;
    sc.ops.push(Op::Disconnect { tick: t0 + after, peer: a, handle: 3 });
    sc.ticks = t0 + after + 60;
    sc.settle = 150;
    sc
}

/// Three or four peers; in one and the same tick the observer L receives, from B, the announcement that C was
/// dropped and, from C, the announcement that B was dropped (the two lost each other but both still reach L; each
/// names the last frame it reports for the other anyway, so no deep rollback is involved). Dropping a player
/// disconnects its endpoint, whose report then no longer counts for the handles scanned after it: which of the two
/// L drops is decided by the order in which the handles are scanned, which must be the ascending one, not a map's.
pub fn mutual_drop_case(i: u64, seed: u64) -> Scenario {
    let r = mix(seed ^ 0x3d20, i);
    let np = if (r >> 2) % 3 == 0 { 4 } else { 3 };
    let mut sc = Scenario::basic(r, np);
    sc.max_pred = [8u8, 12, 16][(r % 3) as usize];
    let d = [0u8, 1, 2][((r >> 4) % 3) as usize];
    for p in sc.peers.iter_mut() {
        p.delay = d;
    }
    sc.sched = 0;
    sc.notify_ms = 20000;
    sc.timeout_ms = 40000;
    let lat = ((r >> 8) % 12) as u16;
    sc.link = crate::sim::net::LinkProfile { loss: 0, dup: 0, lat_min: lat, lat_max: lat };
    // observer and the two remotes that announce each other
    let l = ((r >> 16) % np as u64) as u8;
    let others: Vec<u8> = (0..np as u8).filter(|p| *p != l).collect();
    let b = others[((r >> 20) % others.len() as u64) as usize];
    let c = *others.iter().find(|p| **p != b).unwrap();
    let t0 = 70 + ((r >> 32) % 80) as u32;
    sc.ops.push(Op::Forge { tick: t0, to: peer_addr(l as usize), from: peer_addr(b as usize), kind: 14, a: c as i32, b: 0, bytes: vec![] });
    sc.ops.push(Op::Forge { tick: t0, to: peer_addr(l as usize), from: peer_addr(c as usize), kind: 14, a: b as i32, b: 0, bytes: vec![] });
    sc.ticks = t0 + 80;
    sc.settle = 40;
    sc
}

pub fn eval_stale_gossip(sc: &Scenario) -> CaseResult {
    let mut r = eval(sc);
    r.classes.push("stale_gossip");
    r
}

pub fn run_prop(ctx: &Ctx) -> PropReport {
    let mut rep = PropReport::new("C17", "exploration");
    let tier = ctx.tier;
    rep.part(|| run_random(ctx, "replicas",
        "C01's scenario space weighted to two local players per peer and 3-4 peers, with desync detection, delay changes and (two-peer) deaths; every scenario is executed three times, replicas 2 and 3 in fresh OS threads (fresh RandomState for every HashMap) and with different handshake random numbers; compared: per-session request-list trace (tick, request kinds, frames, inputs, statuses), every saved game state, per-address event sequences with timestamps, and the per-link sent packet counts (premise: same packets); non-trivial = a peer with several local players or >= 3 peers, > 50 confirmed frames",
        || gen(tier), ctx.tier.pick(3000, 12000), eval));
    let seed = ctx.seed;
    rep.part(|| run_enum(ctx, "gossip_replicas",
        "C10's two-successive-drops scenario (4 peers, second cut-off learnt from gossip while another endpoint is already disconnected), three replicas each: the scan over the endpoint map must not depend on its iteration order",
        ctx.tier.pick(300, 2000), move |i| super::c10::gossip_case(i, seed), eval, false));
    rep.part(|| run_enum(ctx, "isolated_replicas",
        "C10's isolated-observer scenario (both remote endpoints time out in the same poll with different last frames), three replicas each: the order in which the endpoint map yields the two Disconnected events must not matter",
        ctx.tier.pick(300, 2000), move |i| super::c10::isolated_case(i, seed), eval, false));
    rep.part(|| run_enum(ctx, "stale_gossip_replicas",
        "4 peers L, A, B, X: X dies, a few ticks later (everybody holds all of its input) A drops it with disconnect_player; the link B -> L becomes slow (80..250 ms) shortly before, so when A's notice arrives the newest report L holds from B still names an earlier last frame for X: the earliest cut-off over L's endpoint map (and so the frame L rolls back to) must not depend on the order in which the map yields A and B; windows 24..48 keep the repeated rollbacks inside the window; three replicas each",
        ctx.tier.pick(400, 3000), move |i| stale_gossip_case(i, seed), eval_stale_gossip, false));
    rep.part(|| run_enum(ctx, "mutual_drop_replicas",
        "3-4 peers, one local player each: in one tick the observer receives B's announcement that C was dropped and C's announcement that B was dropped (copies of their last real input packets with the flag set, at the frames they report anyway); which of the two the observer drops (the lower handle: its endpoint is disconnected and its report no longer counts for the handles after it) must not depend on a map's iteration order; three replicas each",
        ctx.tier.pick(300, 2000), move |i| mutual_drop_case(i, seed), eval_stale_gossip, false));
    rep.floors.push(("replicas".into(), 0.3));
    rep.assumptions = vec![
        "hash order cannot be forced; every replica samples one fresh RandomState per map. A dependence that needs one specific order of k keys is missed by 3 replicas with probability about (1/k!)^2..1".into(),
        "packet fates are a pure function of (seed, link, per-link counter), so 'the same received packets in the same order' holds by construction as long as the sessions send the same per-link streams (which is compared)".into(),
    ];
    rep
}
