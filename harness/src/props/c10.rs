//! C10 - surviving peers agree on the cut-off of a dropped player.
use super::common::*;
use super::posthoc::*;
use crate::engine::*;
use crate::sim::net::LinkProfile;
use crate::sim::scenario::*;
use crate::sim::types::*;
use crate::sim::world::*;

pub const PROPS: &[&str] = &["C10"];

pub fn victim_of(sc: &Scenario) -> Option<usize> {
    sc.ops.iter().find_map(|o| if let Op::Kill { peer, .. } = o { Some(*peer as usize) } else { None })
}

/// structural facts for signatures: did the survivors hold different amounts of the victim's input?
fn split_amount(sc: &Scenario) -> u32 {
    let kt = sc.ops.iter().find_map(|o| if let Op::Kill { tick, .. } = o { Some(*tick) } else { None }).unwrap_or(0);
    sc.ops.iter().filter_map(|o| if let Op::LinkDown { tick, .. } = o { Some(kt.saturating_sub(*tick)) } else { None }).max().unwrap_or(0)
}

pub fn eval(sc: &Scenario) -> CaseResult {
    let out = run(sc, &RunOpts::default());
    let mut r = CaseResult::default();
    r.classes = base_classes(sc, &out);
    r.counters = base_counters(&out);
    r.summary = summary(sc, &out);
    let victim = victim_of(sc).unwrap_or(usize::MAX);
    let split = split_amount(sc);
    // structural precondition of the known finding, from the network ledger (not from the session):
    // did the survivors hold different amounts of the victim's input when it died?
    let pre = {
        let lasts: Vec<i32> = (0..sc.peers.len()).filter(|p| *p != victim).map(|s| out.net.ledgers.get(&(peer_addr(victim), peer_addr(s))).map(|l| l.input_delivered_max).unwrap_or(-1)).collect();
        // the ledger only bounds what a survivor holds from above (a delivered packet can still be
        // undecodable); the survivors' own cut-offs are the second witness
        let vh0 = (0..out.owners.len()).find(|h| out.owners[*h] == victim);
        let cuts: Vec<i32> = (0..sc.peers.len()).filter(|p| *p != victim).filter_map(|s| vh0.and_then(|h| out.peers[s].cs.get(h).map(|c| c.1))).collect();
        if lasts.iter().any(|l| *l != lasts[0]) || cuts.iter().any(|c| *c != cuts[0]) { "amounts_differ" } else { "amounts_equal" }
    };
    if let Some((sig, msg)) = first_violation(&out, &["C10", "C02", "C04"]) {
        let kind = if sig.starts_with("panic|") { sig } else { sig };
        r.violation = Some((format!("{kind}|{pre}"), msg));
    }
    let survivors: Vec<usize> = (0..sc.peers.len()).filter(|p| *p != victim).collect();
    let vh: Vec<usize> = (0..out.owners.len()).filter(|h| out.owners[*h] == victim).collect();
    if r.violation.is_none() {
        // after settling every survivor has disconnected the victim
        for &s in &survivors {
            if !vh.iter().all(|h| out.peers[s].cs[*h].0) {
                r.violation = Some((format!("C10.not_disconnected|{pre}"), format!("peer{s} has not marked the dead peer's players as disconnected after settling: {:?}", out.peers[s].cs)));
            }
        }
    }
    if r.violation.is_none() {
        // identical (value, status) for the victim's handles on every frame, identical states
        let n = survivors.iter().map(|s| out.peers[*s].last_conf.min(out.peers[*s].timeline.len() as i32 - 1)).min().unwrap_or(-1);
        let a = survivors[0];
        'cmp: for &b in &survivors[1..] {
            for f in 0..=(n.max(-1)) {
                let f = f as usize;
                for &h in &vh {
                    // a correct prediction is never re-simulated, so Predicted vs Confirmed may differ
                    // in the final timelines; what must agree is the value and the Disconnected flag
                    let (xa, xb) = (out.peers[a].timeline[f][h], out.peers[b].timeline[f][h]);
                    if xa.0 != xb.0 || (xa.1 == ST_DISC) != (xb.1 == ST_DISC) {
                        r.violation = Some((
                            format!("C10.cutoff_disagreement|{pre}"),
                            format!("survivors peer{a} and peer{b} disagree on dropped player {h} at frame {f}: {:?} vs {:?} (their cut-offs: {:?} vs {:?})", out.peers[a].timeline[f][h], out.peers[b].timeline[f][h], out.peers[a].cs[h], out.peers[b].cs[h]),
                        ));
                        break 'cmp;
                    }
                }
                if out.peers[a].after[f] != out.peers[b].after[f] {
                    r.violation = Some((format!("C10.state_divergence|{pre}"), format!("survivors peer{a} and peer{b} have different game states after frame {f}: inputs {:?} vs {:?}", out.peers[a].timeline[f], out.peers[b].timeline[f])));
                    break 'cmp;
                }
            }
        }
    }
    if r.violation.is_none() {
        // per survivor: real inputs up to its cut-off, default/Disconnected afterwards
        r.violation = dropped_player_timeline(&out).map(|(s, m)| (format!("{}|{pre}", s.replace("C07.", "C10.")), m));
    }
    if r.violation.is_none() {
        let (pp, _) = progress_in_tail(&out, 60);
        for &s in &survivors {
            if pp[s] < 3 {
                r.violation = Some((format!("C10.survivor_stuck|{pre}"), format!("peer{s} advanced only {} frames in the last 60 ticks", pp[s])));
            }
        }
    }
    // did the survivors really hold different amounts of the victim's input when it died?
    let lasts: Vec<i32> = survivors.iter().map(|s| out.net.ledgers.get(&(peer_addr(victim), peer_addr(*s))).map(|l| l.input_delivered_max).unwrap_or(-1)).collect();
    let differ = lasts.iter().any(|l| *l != lasts[0]);
    r.nontrivial = differ;
    if differ {
        r.classes.push("survivors_held_different_amounts");
    }
    if split > 0 {
        r.classes.push("split_last_packets");
    }
    r
}

pub fn case(i: u64, seed: u64, stride: u64) -> Scenario {
    let mut k = i;
    let a = (k % 7) as u32; // survivor B misses the last `a` ticks of the victim's packets
    k /= 7;
    let kt = 110 + (k % (60 / stride)) as u32 * stride as u32;
    k /= 60 / stride;
    let r = mix(seed ^ 0xc10, k);
    let np = 3 + (r % 2) as usize;
    let mut sc = Scenario::basic(r, np);
    sc.max_pred = 1 + ((r >> 8) % 12) as u8;
    sc.sparse = (r >> 16) % 3 == 0;
    for (j, p) in sc.peers.iter_mut().enumerate() {
        p.delay = [0u8, 0, 1, 2, 4][((r >> (20 + 3 * j)) % 5) as usize];
        p.locals = if (r >> (36 + j)) % 4 == 0 { 2 } else { 1 };
    }
    let lat = [0u16, 10, 30][((r >> 44) % 3) as usize];
    sc.link = LinkProfile { loss: [0u8, 0, 5][((r >> 48) % 3) as usize], dup: 0, lat_min: lat, lat_max: lat + [0u16, 10][((r >> 52) % 2) as usize] };
    sc.notify_ms = 200;
    sc.timeout_ms = [600u32, 1000, 2000][((r >> 56) % 3) as usize];
    sc.sched = ((r >> 60) % 2) as u8;
    let victim = (np - 1) as u8;
    sc.ticks = kt + 1;
    sc.settle = sc.timeout_ms / 16 + 200;
    if a > 0 {
        sc.ops.push(Op::LinkDown { tick: kt - a, from: peer_addr(victim as usize), to: peer_addr(1) });
    }
    sc.ops.push(Op::Kill { tick: kt, peer: victim });
    sc
}

/// Two successive drops in a 4-peer session over a loss-free zero-latency link (so every survivor
/// holds the same amount of each victim's input): X dies and everybody times it out; later B dies and
/// ONE survivor drops it explicitly at once, so the other survivor must learn B's cut-off from
/// that peer's packets (gossip) - with one endpoint already disconnected at that time.
pub fn gossip_case(i: u64, seed: u64) -> Scenario {
    let r = mix(seed ^ 0x9055, i);
    let mut sc = Scenario::basic(r, 4);
    sc.max_pred = [8u8, 4, 12, 2, 6][(r % 5) as usize];
    sc.sparse = (r >> 8) % 3 == 0;
    let d = [0u8, 1, 2][((r >> 12) % 3) as usize];
    for p in sc.peers.iter_mut() {
        p.delay = d;
        p.locals = if (r >> 16) % 4 == 0 { 2 } else { 1 };
    }
    sc.sched = 0;
    sc.notify_ms = 200;
    sc.timeout_ms = [400u32, 700, 1000][((r >> 20) % 3) as usize];
    let t1 = 70 + ((r >> 24) % 40) as u32;
    let t2 = t1 + sc.timeout_ms / 16 + 40 + ((r >> 32) % 60) as u32;
    // who dies first / second, who drops the second victim explicitly
    let x = 3u8;
    let (b, a) = if (r >> 40) % 2 == 0 { (2u8, 0u8) } else { (1u8, 2u8) };
    sc.ops.push(Op::Kill { tick: t1, peer: x });
    sc.ops.push(Op::Kill { tick: t2, peer: b });
    let bh: u8 = sc.peers.iter().take(b as usize).map(|p| p.locals).sum();
    // one round later: by then the dropping survivor has polled the victim's last packet as well
    sc.ops.push(Op::Disconnect { tick: t2 + 1, peer: a, handle: bh });
    sc.ticks = t2 + 2;
    sc.settle = sc.timeout_ms / 16 + 160;
    if (r >> 44) % 2 == 0 {
        // a spectator on a survivor must see the same cut-offs
        let host = (0..4u8).find(|p| *p != x && *p != b).unwrap_or(0);
        sc.specs.push(SpecSpec { host, max_behind: 10, catchup: 2, slow: 0, window: sc.max_pred });
    }
    sc
}

/// The observer loses BOTH remote peers in the same instant (its own uplink died): both endpoints
/// time out in the same poll, with different last frames (one remote ran a few frames behind).
pub fn isolated_case(i: u64, seed: u64) -> Scenario {
    let r = mix(seed ^ 0x150a, i);
    let mut sc = Scenario::basic(r, 3);
    sc.max_pred = [8u8, 4, 12, 6, 3][(r % 5) as usize];
    sc.sparse = (r >> 8) % 3 == 0;
    let d = [0u8, 0, 1, 2][((r >> 12) % 4) as usize];
    for p in sc.peers.iter_mut() {
        p.delay = d;
        p.locals = if (r >> 16) % 4 == 0 { 2 } else { 1 };
    }
    sc.sched = 0;
    sc.notify_ms = 200;
    sc.timeout_ms = [400u32, 700, 1000][((r >> 20) % 3) as usize];
    // one remote falls k frames behind the other
    let k = 1 + ((r >> 24) % 5) as u32;
    let lagging = 1 + ((r >> 28) % 2) as u8;
    sc.ops.push(Op::Pause { tick: 60, node: lagging, ticks: k });
    let t = 110 + ((r >> 32) % 50) as u32;
    sc.ops.push(Op::Kill { tick: t, peer: 1 });
    sc.ops.push(Op::Kill { tick: t, peer: 2 });
    sc.ticks = t + 1;
    sc.settle = sc.timeout_ms / 16 + 160;
    if (r >> 44) % 2 == 0 {
        sc.specs.push(SpecSpec { host: 0, max_behind: 10, catchup: 2, slow: 0, window: sc.max_pred });
    }
    sc
}

pub fn eval_gossip(sc: &Scenario) -> CaseResult {
    // same oracle; the "victim" for the agreement comparison is the second one, the first is dead too
    let out = run(sc, &RunOpts::default());
    let mut r = CaseResult::default();
    r.classes = base_classes(sc, &out);
    r.counters = base_counters(&out);
    r.summary = summary(sc, &out);
    let dead: Vec<usize> = sc.ops.iter().filter_map(|o| if let Op::Kill { peer, .. } = o { Some(*peer as usize) } else { None }).collect();
    let survivors: Vec<usize> = (0..sc.peers.len()).filter(|p| !dead.contains(p)).collect();
    r.violation = first_violation(&out, &["C10", "C02", "C04"]).map(|(s, m)| (format!("{s}|gossip_equal_amounts"), m));
    if r.violation.is_none() {
        for &s in &survivors {
            for (h, o) in out.owners.iter().enumerate() {
                if dead.contains(o) && !out.peers[s].cs[h].0 {
                    r.violation = Some(("C10.not_disconnected|gossip_equal_amounts".into(), format!("peer{s} never marked player {h} (owned by dead peer{o}) as disconnected: {:?}", out.peers[s].cs)));
                }
            }
        }
    }
    if r.violation.is_none() {
        let n = survivors.iter().map(|s| out.peers[*s].last_conf.min(out.peers[*s].timeline.len() as i32 - 1)).min().unwrap_or(-1);
        let a = survivors[0];
        'cmp: for &b in &survivors[1..] {
            for f in 0..=(n.max(-1)) {
                let f = f as usize;
                for h in 0..out.owners.len() {
                    let (xa, xb) = (out.peers[a].timeline[f][h], out.peers[b].timeline[f][h]);
                    if xa.0 != xb.0 || (xa.1 == ST_DISC) != (xb.1 == ST_DISC) {
                        r.violation = Some(("C10.cutoff_disagreement|gossip_equal_amounts".into(), format!("survivors peer{a} and peer{b} disagree on player {h} at frame {f}: {:?} vs {:?} (cut-offs {:?} vs {:?})", xa, xb, out.peers[a].cs[h], out.peers[b].cs[h])));
                        break 'cmp;
                    }
                }
                if out.peers[a].after[f] != out.peers[b].after[f] {
                    r.violation = Some(("C10.state_divergence|gossip_equal_amounts".into(), format!("survivors peer{a} and peer{b} have different states after frame {f}")));
                    break 'cmp;
                }
            }
        }
    }
    if r.violation.is_none() {
        r.violation = dropped_player_timeline(&out).map(|(s, m)| (format!("{}|gossip_equal_amounts", s.replace("C07.", "C10.")), m));
    }
    if r.violation.is_none() {
        r.violation = spectator_replay(sc, &out).map(|(s, m)| (format!("C10.spectator|{s}|gossip_equal_amounts"), m));
    }
    // non-trivial: the non-dropping survivor learnt the second cut-off before its own timeout could fire
    let t2 = sc.ops.iter().filter_map(|o| if let Op::Kill { tick, .. } = o { Some(*tick) } else { None }).max().unwrap_or(0);
    let _ = t2;
    r.nontrivial = survivors.iter().all(|s| out.peers[*s].alive && out.peers[*s].cs.iter().filter(|c| c.0).count() >= 2);
    r.classes.push("second_drop_learnt_by_gossip");
    r
}

/// One drop with equal amounts at both survivors (loss-free, all of the victim's packets delivered), but
/// packets one survivor sent to the other shortly BEFORE the death are held back until after both have timed
/// the victim out and told each other: the stale connection-status table in them ("connected, last frame
/// L-k") must not move the agreed cut-off.
pub fn stale_case(i: u64, seed: u64) -> Scenario {
    let r = mix(seed ^ 0x57a1e, i);
    let mut sc = Scenario::basic(r, 3);
    sc.max_pred = [8u8, 3, 2, 12, 6][(r % 5) as usize];
    sc.sparse = (r >> 8) % 3 == 0;
    let d = [0u8, 0, 1, 2][((r >> 12) % 4) as usize];
    for p in sc.peers.iter_mut() {
        p.delay = d;
        p.locals = if (r >> 16) % 4 == 0 { 2 } else { 1 };
    }
    sc.sched = 0;
    let lat = [0u16, 10][((r >> 18) % 2) as usize];
    sc.link = LinkProfile { loss: 0, dup: 0, lat_min: lat, lat_max: lat };
    sc.notify_ms = 200;
    sc.timeout_ms = [400u32, 700, 1000][((r >> 20) % 3) as usize];
    let kt = 90 + ((r >> 24) % 60) as u32;
    let victim = 2u8;
    let (a, b) = if (r >> 32) % 2 == 0 { (0usize, 1usize) } else { (1, 0) };
    let back = 2 + ((r >> 36) % 10) as u32; // the held-back packets were sent 2..=11 ticks before the death
    let span = 1 + ((r >> 40) % 4) as u32;
    let extra = sc.timeout_ms + 300 + ((r >> 44) % 1200) as u32;
    sc.ops.push(Op::Slow { tick: kt - back, from: peer_addr(a), to: peer_addr(b), len_ms: span * 16, extra_ms: extra });
    if (r >> 56) % 3 == 0 {
        sc.ops.push(Op::Slow { tick: kt - back, from: peer_addr(b), to: peer_addr(a), len_ms: span * 16, extra_ms: extra + 100 });
    }
    if (r >> 50) % 2 == 1 {
        // the victim's own last packets: lost on the way to one survivor, held back on the way to the other until
        // after it has dropped the victim - both time out with the same last frame, the late inputs must be ignored
        let k = 1 + ((r >> 52) % 4) as u32;
        sc.ops.push(Op::LinkDown { tick: kt - k, from: peer_addr(victim as usize), to: peer_addr(b) });
        sc.ops.push(Op::Slow { tick: kt - k, from: peer_addr(victim as usize), to: peer_addr(a), len_ms: (k + 1) * 16, extra_ms: sc.timeout_ms + 200 + ((r >> 54) % 800) as u32 });
    }
    sc.ops.push(Op::Kill { tick: kt, peer: victim });
    sc.ops.sort_by_key(|o| o.tick());
    sc.ticks = kt + 1;
    sc.settle = (sc.timeout_ms + extra) / 16 + 200;
    if (r >> 60) % 2 == 0 {
        sc.specs.push(SpecSpec { host: b as u8, max_behind: 10, catchup: 2, slow: 0, window: sc.max_pred });
    }
    sc
}

pub fn eval_stale(sc: &Scenario) -> CaseResult {
    let mut r = eval_gossip(sc);
    if let Some((s, m)) = r.violation.take() {
        r.violation = Some((s.replace("gossip_equal_amounts", "stale_status"), m));
    }
    r.classes.retain(|c| *c != "second_drop_learnt_by_gossip");
    r.classes.push("status_table_older_than_the_drop_delivered_after_it");
    let out = run(sc, &RunOpts::default());
    r.nontrivial = out.peers.iter().take(2).all(|p| p.alive && p.cs.iter().any(|c| c.0)) && out.net.delayed > 0;
    r
}

pub fn run_prop(ctx: &Ctx) -> PropReport {
    let mut rep = PropReport::new("C10", "fault_enumeration");
    let seed = ctx.seed;
    let stride = ctx.tier.pick(4u64, 1u64);
    let cfgs = ctx.tier.pick(150u64, 800u64);
    let n = 7 * (60 / stride) * cfgs;
    rep.part(|| run_enum(ctx, "death_split",
        "fault enumeration: seeded 3-4 peer rollback sessions (window 1..=12, sparse, delays, 1-2 local players, latency 0-40 ms, loss 0/5%, timeouts 600-2000 ms) x moment of death (every 4th / every tick of a 60-tick window) x split of the dying peer's last packets (survivor 1 misses its last a in 0..=6 ticks of packets, the others get everything); survivor-survivor links stay up; settle = timeout + 3 s; oracle: no panic, every survivor disconnects the victim, identical (value,status) for the victim's players and identical game state on every frame across survivors, real inputs up to the cut-off then default/Disconnected, survivors keep advancing; non-trivial = the survivors really held different amounts of the victim's input (network ledger)",
        n, move |i| case(i, seed, stride), eval, false));
    let m = ctx.tier.pick(600u64, 4000u64);
    rep.part(|| run_enum(ctx, "gossip_equal_amounts",
        "seeded 4-peer sessions on a loss-free zero-latency link (all survivors hold the same amount of every victim's input): one peer dies and is timed out by everybody, later a second peer dies and ONE survivor drops it explicitly at once, so the other survivor must adopt that cut-off from gossip while one of its endpoints is already disconnected; same agreement oracle, no known finding applies here",
        m, move |i| gossip_case(i, seed), eval_gossip, false));
    rep.part(|| run_enum(ctx, "isolated_observer",
        "seeded 3-peer sessions in which the observer loses both remote peers at the same instant, one of them a few frames behind the other: both endpoints time out in the same poll with different last frames; the single survivor's final timeline must carry, for EACH dropped player, its real inputs up to its own last frame and default/Disconnected afterwards",
        ctx.tier.pick(600u64, 4000u64), move |i| isolated_case(i, seed), eval_gossip, false));
    rep.part(|| run_enum(ctx, "stale_status",
        "seeded 3-peer sessions, loss-free, both survivors hold the same amount of the victim's input; 1-4 ticks of packets that one survivor sent to the other 2-11 ticks BEFORE the death are delivered only after both have timed the victim out and exchanged their cut-offs (survivor-to-survivor reordering by more than the disconnect timeout): the stale 'connected, last frame L-k' table in them must not move the cut-off; in half of the cases the victim's own last 1-4 ticks of packets are lost towards one survivor and reach the other only after it has dropped the victim (late inputs of a dropped player must be ignored); same agreement oracle, no known finding applies",
        ctx.tier.pick(800u64, 5000u64), move |i| stale_case(i, seed), eval_stale, false));
    rep.assumptions = vec!["agreement is an end-state claim: compared after a settle phase longer than the disconnect timeout plus gossip".into()];
    rep
}
