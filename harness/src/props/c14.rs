//! C14 - the input codec round-trips every input and decodes total.
//! Totality is decided by running the real decoder in supervised child processes (an allocation
//! failure aborts the process and cannot be caught in-process); round-trips run in-process.
use crate::alloc_count;
use crate::engine::*;
use crate::sim::types::{mix, Rng};
use ggrs::verif_hooks::{decode, encode};
use proptest::prelude::*;
use serde::{Deserialize, Serialize};
use serde_json::json;
use std::io::{BufRead, BufReader, Write};
use std::panic::{catch_unwind, AssertUnwindSafe};
use std::process::{Child, ChildStdin, ChildStdout, Command, Stdio};
use std::sync::atomic::{AtomicBool, AtomicU64, Ordering};
use std::sync::Mutex;

/// "a small multiple of what a legitimate packet can contain": 4 x (128 pending inputs x (2 + 65535) bytes)
pub const ALLOC_CAP: usize = 4 * 128 * (2 + 65535);

pub const REFS: [&[u8]; 3] = [&[], &[0x5a], &[0x5a, 0xff]];

// ---------------------------------------------------------------- round trip

#[derive(Clone, Debug, Serialize, Deserialize, PartialEq, Eq, Hash)]
pub struct RtCase {
    pub reference: Vec<u8>,
    pub inputs: Vec<Vec<u8>>,
}

pub fn eval_rt(c: &RtCase) -> CaseResult {
    let mut r = CaseResult::default();
    let total: usize = c.inputs.iter().map(|i| i.len()).sum();
    r.summary = format!("ref_len={} inputs={} total_bytes={}", c.reference.len(), c.inputs.len(), total);
    let res = catch_unwind(AssertUnwindSafe(|| {
        let enc = encode(&c.reference, c.inputs.iter());
        let dec = decode(&c.reference, &enc);
        (enc, dec.map_err(|e| e.to_string()))
    }));
    match res {
        Err(_) => {
            r.violation = Some((format!("panic|{}", crate::sim::world::normalise(&crate::sim::world::take_panic())), "encode/decode panicked on a round trip".into()));
        }
        Ok((enc, Err(e))) => {
            r.violation = Some(("C14.roundtrip_err".into(), format!("decode(encode(x)) returned Err({e}); encoded = {enc:02x?}")));
        }
        Ok((enc, Ok(dec))) => {
            if dec != c.inputs {
                r.violation = Some(("C14.roundtrip_ne".into(), format!("decode(encode(x)) != x: got {} inputs {:02x?} (encoded {} bytes)", dec.len(), dec.iter().take(4).collect::<Vec<_>>(), enc.len())));
            }
        }
    }
    let lens: std::collections::BTreeSet<usize> = c.inputs.iter().map(|i| i.len()).collect();
    if lens.len() > 1 {
        r.classes.push("varying_lengths");
    }
    if c.inputs.iter().any(|i| i.is_empty()) {
        r.classes.push("empty_input");
    }
    if c.inputs.iter().any(|i| i.len() > c.reference.len()) {
        r.classes.push("longer_than_reference");
    }
    if c.inputs.iter().any(|i| i.len() < c.reference.len()) {
        r.classes.push("shorter_than_reference");
    }
    if c.inputs.iter().any(|i| i.len() >= 256) {
        r.classes.push("len>=256");
    }
    if c.inputs.iter().any(|i| i.len() >= 60000) {
        r.classes.push("len>=60000");
    }
    if c.inputs.iter().any(|i| i.windows(3).any(|w| w == [0xff, 0xff, 0xff])) {
        r.classes.push("ff_run");
    }
    if total >= (1 << 19) {
        r.classes.push("total>=512KiB");
    }
    if c.inputs.windows(2).any(|w| w[0] == w[1] && !w[0].is_empty()) {
        r.classes.push("repeated_input(zero_delta)");
    }
    r.nontrivial = !c.inputs.is_empty() && total > 0;
    r.counters.push(("bytes_roundtripped", total as u64));
    r
}

fn biased_bytes(max_len: usize) -> BoxedStrategy<Vec<u8>> {
    // runs of 0x00 / 0xFF / a repeated byte / random bytes
    let chunk = prop_oneof![
        3 => (0usize..12).prop_map(|n| vec![0u8; n]),
        3 => (0usize..12).prop_map(|n| vec![0xffu8; n]),
        2 => (any::<u8>(), 0usize..6).prop_map(|(b, n)| vec![b; n]),
        3 => proptest::collection::vec(any::<u8>(), 0..6),
        1 => proptest::collection::vec(prop_oneof![Just(0x80u8), Just(0x7f), Just(0x01), Just(0xfe)], 0..4),
    ];
    proptest::collection::vec(chunk, 0..8)
        .prop_map(move |cs| {
            let mut v: Vec<u8> = cs.into_iter().flatten().collect();
            v.truncate(max_len);
            v
        })
        .boxed()
}

fn rt_strategy(max_len: usize, max_inputs: usize) -> BoxedStrategy<RtCase> {
    let input = prop_oneof![
        6 => biased_bytes(max_len),
        1 => Just(Vec::new()),
    ];
    (biased_bytes(max_len), proptest::collection::vec(input, 0..=max_inputs), any::<u8>())
        .prop_map(|(reference, mut inputs, k)| {
            // a third of the cases: same-size inputs close to each other (what sessions send)
            if k % 3 == 0 && !inputs.is_empty() {
                let n = inputs[0].len();
                for i in 1..inputs.len() {
                    let prev = inputs[i - 1].clone();
                    let cur = &mut inputs[i];
                    cur.resize(n, 0);
                    for (j, b) in cur.iter_mut().enumerate() {
                        if j % 3 != (k as usize) % 3 {
                            *b = prev[j];
                        }
                    }
                }
            }
            RtCase { reference, inputs }
        })
        .boxed()
}

fn rt_big_strategy() -> BoxedStrategy<RtCase> {
    // lengths up to 65535 (the length prefix is a u16)
    let len = prop_oneof![2 => Just(65535usize), 1 => Just(65534usize), 2 => 256usize..70000, 1 => Just(0usize)];
    (proptest::collection::vec((len, any::<u64>(), 0u8..4), 1..4), 0usize..300, any::<u64>())
        .prop_map(|(specs, rl, rs)| {
            let fill = |n: usize, seed: u64, mode: u8| -> Vec<u8> {
                let n = n.min(65535);
                let mut r = Rng(seed);
                (0..n)
                    .map(|i| match mode {
                        0 => 0u8,
                        1 => 0xff,
                        2 => (r.next() >> 7) as u8,
                        _ => {
                            if (i / 97) % 2 == 0 {
                                0
                            } else {
                                (r.next() >> 9) as u8
                            }
                        }
                    })
                    .collect()
            };
            RtCase { reference: fill(rl, rs, 2), inputs: specs.into_iter().map(|(n, s, m)| fill(n, s, m)).collect() }
        })
        .boxed()
}

/// chains of same-length inputs in which every input is its predecessor XOR a constant byte (the first one:
/// the reference XOR that byte): the delta layer then consists of one byte value only, and with lengths whose
/// two prefix bytes equal that value too (65535 = FF FF, 0 = 00 00) the run-length layer sees ONE run across
/// all the inputs of the packet - up to 16 x 65537 bytes, far beyond what any single input can produce
fn rt_runs_strategy() -> BoxedStrategy<RtCase> {
    let len = prop_oneof![6 => Just(65535usize), 1 => Just(65534usize), 1 => Just(0xff00usize), 1 => Just(0x00ffusize), 1 => Just(0x0101usize), 1 => 0usize..70000];
    let mask = prop_oneof![4 => Just(0xffu8), 2 => Just(0x00u8), 1 => Just(0x01u8), 1 => Just(0x80u8), 1 => any::<u8>()];
    (len, mask, 1usize..=16, any::<u64>(), 0u8..4, proptest::collection::vec((any::<u8>(), any::<u16>(), any::<u8>()), 0..3))
        .prop_map(|(n, m, count, seed, refmode, blemishes)| {
            let n = n.min(65535);
            let mut r = Rng(seed);
            // reference: same length as the inputs (random / zero), shorter, or empty
            let reference: Vec<u8> = match refmode {
                0 => (0..n).map(|_| (r.next() >> 7) as u8).collect(),
                1 => vec![0u8; n],
                2 => (0..n / 2).map(|_| (r.next() >> 7) as u8).collect(),
                _ => vec![],
            };
            let mut prev: Vec<u8> = reference.clone();
            prev.resize(n, 0);
            let mut inputs = Vec::new();
            for _ in 0..count {
                let cur: Vec<u8> = prev.iter().map(|b| b ^ m).collect();
                inputs.push(cur.clone());
                prev = cur;
            }
            // a few single-byte blemishes that cut the long run at arbitrary places
            for (which, pos, val) in blemishes {
                let i = which as usize % inputs.len();
                if !inputs[i].is_empty() {
                    let p = pos as usize % inputs[i].len();
                    inputs[i][p] ^= val;
                }
            }
            RtCase { reference, inputs }
        })
        .boxed()
}

const ALPHA: [u8; 4] = [0x00, 0x01, 0x80, 0xff];
/// all byte strings over ALPHA of length <= 3, by index 0..85
fn alpha_string(mut i: u64) -> Vec<u8> {
    let mut len = 0;
    let mut block = 1u64;
    while i >= block {
        i -= block;
        block *= 4;
        len += 1;
    }
    let mut v = Vec::with_capacity(len);
    for _ in 0..len {
        v.push(ALPHA[(i % 4) as usize]);
        i /= 4;
    }
    v
}
const N_STR3: u64 = 1 + 4 + 16 + 64;
const N_SEQ3: u64 = 1 + N_STR3 + N_STR3 * N_STR3 + N_STR3 * N_STR3 * N_STR3;

fn rt_exh_case(i: u64) -> RtCase {
    let mut seq = i % N_SEQ3;
    let refi = i / N_SEQ3;
    let reference = alpha_string(refi);
    let mut inputs = Vec::new();
    // sequences of 0..=3 strings
    let mut n = 0;
    let mut block = 1u64;
    while seq >= block {
        seq -= block;
        block *= N_STR3;
        n += 1;
    }
    for _ in 0..n {
        inputs.push(alpha_string(seq % N_STR3));
        seq /= N_STR3;
    }
    RtCase { reference, inputs }
}

// ---------------------------------------------------------------- totality (child processes)

/// byte string number i in the enumeration of all byte strings by length
pub fn exh_bytes(mut i: u64) -> Vec<u8> {
    let mut len = 0;
    let mut block = 1u64;
    while i >= block {
        i -= block;
        block *= 256;
        len += 1;
    }
    let mut v = Vec::with_capacity(len);
    for _ in 0..len {
        v.push((i % 256) as u8);
        i /= 256;
    }
    v
}
pub fn exh_count(max_len: u32) -> u64 {
    (0..=max_len).map(|l| 256u64.pow(l)).sum()
}

/// random / mutational decoder input number i of a campaign
pub fn rand_case(seed: u64, i: u64) -> (Vec<u8>, Vec<u8>) {
    let mut r = Rng(mix(seed ^ 0xc14, i));
    let reference: Vec<u8> = (0..r.below(6)).map(|_| r.next() as u8).collect();
    let mode = r.below(12);
    if mode >= 10 {
        // grammar-aware: a sequence of bitfield-rle tokens whose varint headers have boundary values and are
        // encoded minimally or over-long (redundant continuation bytes, up to 11 bytes, stray high bits in
        // the last byte), literal tokens followed by (too few / enough / too many) bytes
        let mut data = Vec::new();
        let ntok = 1 + r.below(4);
        for _ in 0..ntok {
            let len: u64 = match r.below(8) {
                0 => r.below(4),
                1 => r.below(300),
                2 => (1u64 << (7 * (1 + r.below(9)))).wrapping_add(r.below(3)).wrapping_sub(1),
                3 => u64::MAX >> r.below(8),
                4 => 1u64 << (56 + r.below(8)),
                _ => 1 + r.below(40),
            };
            let run = r.chance(50);
            let header = if run { (len << 2) | (r.below(2) << 1) | 1 } else { len << 1 };
            // minimal LEB128
            let mut v = header;
            let mut bytes = Vec::new();
            loop {
                let b = (v & 0x7f) as u8;
                v >>= 7;
                if v == 0 {
                    bytes.push(b);
                    break;
                }
                bytes.push(b | 0x80);
            }
            if r.chance(45) {
                let target = (bytes.len() as u64 + 1 + r.below(4)).min(11).max(if r.chance(50) { 10 } else { 0 }) as usize;
                if target > bytes.len() {
                    let l = bytes.len();
                    bytes[l - 1] |= 0x80;
                    while bytes.len() + 1 < target {
                        bytes.push(0x80);
                    }
                    bytes.push(match r.below(4) {
                        0 => 0,
                        1 => 1,
                        2 => 2 + r.below(126) as u8,
                        _ => 0x7f,
                    });
                }
            }
            data.extend_from_slice(&bytes);
            if !run {
                let n = match r.below(4) {
                    0 => len.min(64),
                    1 => len.min(64).saturating_sub(1),
                    2 => (len.min(64)) + 1,
                    _ => r.below(8),
                };
                for _ in 0..n {
                    data.push(if r.chance(40) { 0 } else { r.next() as u8 });
                }
            }
        }
        (reference, data)
    } else if mode < 4 {
        // raw bytes biased to varint continuation / run headers
        let n = 1 + r.below(24) as usize;
        let data = (0..n)
            .map(|_| match r.below(8) {
                0 => 0x80 | (r.next() as u8),
                1 => 0xff,
                2 => 0x01,
                3 => 0x03,
                4 => (r.below(32) as u8) << 1,
                _ => r.next() as u8,
            })
            .collect();
        (reference, data)
    } else {
        // mutation of a valid encoding
        let n_in = 1 + r.below(5) as usize;
        let len = r.below(9) as usize;
        let mut inputs: Vec<Vec<u8>> = Vec::new();
        for k in 0..n_in {
            let mut v: Vec<u8> = if k > 0 && r.chance(60) { inputs[k - 1].clone() } else { (0..len).map(|_| if r.chance(50) { 0 } else { r.next() as u8 }).collect() };
            if !v.is_empty() && r.chance(50) {
                let j = r.below(v.len() as u64) as usize;
                v[j] ^= 1 << r.below(8);
            }
            inputs.push(v);
        }
        let mut data = encode(&reference, inputs.iter());
        for _ in 0..1 + r.below(3) {
            if data.is_empty() {
                data.push(r.next() as u8);
                continue;
            }
            let j = r.below(data.len() as u64) as usize;
            match r.below(6) {
                0 => data[j] ^= 1 << r.below(8),
                1 => {
                    data.truncate(j);
                }
                2 => data.insert(j, 0x80 | r.next() as u8),
                3 => data[j] = 0xff,
                4 => data.insert(j, r.next() as u8),
                _ => {
                    data[j] = data[j].wrapping_add(2);
                }
            }
        }
        (reference, data)
    }
}

fn worker_input(mode: &str, a: u64, i: u64) -> (Vec<u8>, Vec<u8>) {
    match mode {
        "exh" => (REFS[(a as usize) % REFS.len()].to_vec(), exh_bytes(i)),
        _ => rand_case(a, i),
    }
}

/// one decode call under measurement: Ok(frames) | Err, or a violation (kind, detail)
pub fn judge_decode(reference: &[u8], data: &[u8]) -> Result<(bool, usize), (u8, String)> {
    let base = alloc_count::reset_peak();
    let res = catch_unwind(AssertUnwindSafe(|| decode(reference, data).map(|v| v.len()).map_err(|_| ())));
    let peak = alloc_count::peak_since(base);
    match res {
        Err(_) => Err((1, format!("panic|{}", crate::sim::world::normalise(&crate::sim::world::take_panic())))),
        Ok(r) => {
            if peak > ALLOC_CAP {
                Err((2, format!("C14.alloc|peak allocation {} bytes for a {}-byte input (cap {})", peak, data.len(), ALLOC_CAP)))
            } else {
                Ok((r.is_ok(), peak))
            }
        }
    }
}

/// child process main loop
pub fn worker_main() -> ! {
    crate::sim::world::QUIET_PANICS.with(|q| q.set(true));
    unsafe {
        let lim = libc::rlimit { rlim_cur: 4 << 30, rlim_max: 4 << 30 };
        libc::setrlimit(libc::RLIMIT_AS, &lim);
    }
    let stdin = std::io::stdin();
    let mut out = std::io::stdout();
    for line in stdin.lock().lines() {
        let Ok(line) = line else { break };
        let t: Vec<&str> = line.split_whitespace().collect();
        if t.len() < 4 {
            continue;
        }
        let mode = t[0];
        let a: u64 = t[1].parse().unwrap_or(0);
        let start: u64 = t[2].parse().unwrap_or(0);
        let count: u64 = t[3].parse().unwrap_or(0);
        let want_hashes = t.get(4) == Some(&"h");
        let mut hashes = String::new();
        let (mut n_ok, mut n_err, mut max_peak) = (0u64, 0u64, 0usize);
        let mut viol: Option<(u64, u8, String)> = None;
        for i in start..start + count {
            let (reference, data) = worker_input(mode, a, i);
            if want_hashes {
                let mut h = 0xcbf2_9ce4_8422_2325u64 ^ (reference.len() as u64);
                for b in reference.iter().chain(data.iter()) {
                    h ^= *b as u64;
                    h = h.wrapping_mul(0x1000_0000_01b3);
                }
                h ^= (data.len() as u64) << 56;
                hashes.push_str(&format!("{:x},", h));
            }
            match judge_decode(&reference, &data) {
                Ok((ok, peak)) => {
                    if ok {
                        n_ok += 1
                    } else {
                        n_err += 1
                    }
                    max_peak = max_peak.max(peak);
                }
                Err((kind, detail)) => {
                    if viol.is_none() {
                        viol = Some((i, kind, detail));
                    }
                }
            }
        }
        let (vi, vk, vd) = viol.map(|v| (v.0 as i64, v.1, v.2)).unwrap_or((-1, 0, String::new()));
        let _ = writeln!(out, "R {} {} {} {} {} {}", n_ok, n_err, max_peak, vi, vk, vd.replace('\n', " "));
        if want_hashes {
            let _ = writeln!(out, "H {}", hashes);
        }
        let _ = out.flush();
    }
    std::process::exit(0);
}

/// keep glibc from mmap/munmap-ing every large buffer (page zeroing by the kernel saturates memory
/// bandwidth when 16 workers decode run-length bombs of a few hundred KiB each)
fn malloc_env(c: &mut Command) -> &mut Command {
    c.env("MALLOC_MMAP_THRESHOLD_", "1073741824").env("MALLOC_TRIM_THRESHOLD_", "2147483648").env("MALLOC_TOP_PAD_", "67108864")
}

struct Worker {
    child: Child,
    stdin: ChildStdin,
    stdout: BufReader<ChildStdout>,
}
impl Worker {
    fn spawn() -> Option<Worker> {
        let exe = std::env::current_exe().ok()?;
        let mut child = malloc_env(Command::new(exe).arg("codec-worker")).stdin(Stdio::piped()).stdout(Stdio::piped()).stderr(Stdio::null()).spawn().ok()?;
        let stdin = child.stdin.take()?;
        let stdout = BufReader::new(child.stdout.take()?);
        Some(Worker { child, stdin, stdout })
    }
    /// None = the child died
    fn ask(&mut self, mode: &str, a: u64, start: u64, count: u64) -> Option<Reply> {
        self.ask_h(mode, a, start, count, false)
    }
    fn ask_h(&mut self, mode: &str, a: u64, start: u64, count: u64, want_hashes: bool) -> Option<Reply> {
        writeln!(self.stdin, "{mode} {a} {start} {count} {}", if want_hashes { "h" } else { "-" }).ok()?;
        self.stdin.flush().ok()?;
        let mut line = String::new();
        let n = self.stdout.read_line(&mut line).ok()?;
        if n == 0 {
            return None;
        }
        let t: Vec<&str> = line.trim_end().splitn(7, ' ').collect();
        if t.len() < 6 || t[0] != "R" {
            return None;
        }
        let mut hashes = Vec::new();
        if want_hashes {
            let mut hl = String::new();
            if self.stdout.read_line(&mut hl).ok()? == 0 {
                return None;
            }
            for h in hl.trim_end().trim_start_matches("H ").split(',') {
                if let Ok(v) = u64::from_str_radix(h, 16) {
                    hashes.push(v);
                }
            }
        }
        Some(Reply { n_ok: t[1].parse().ok()?, n_err: t[2].parse().ok()?, max_peak: t[3].parse().ok()?, viol_idx: t[4].parse().ok()?, viol_kind: t[5].parse().ok()?, detail: t.get(6).unwrap_or(&"").to_string(), hashes })
    }
}
impl Drop for Worker {
    fn drop(&mut self) {
        let _ = self.child.kill();
        let _ = self.child.wait();
    }
}
#[derive(Debug, Clone)]
struct Reply {
    n_ok: u64,
    n_err: u64,
    max_peak: usize,
    viol_idx: i64,
    viol_kind: u8,
    detail: String,
    hashes: Vec<u64>,
}

/// finds the first input of [start, start+count) that kills a fresh child
fn bisect_death(mode: &str, a: u64, start: u64, count: u64) -> Option<u64> {
    let (mut lo, mut n) = (start, count);
    while n > 1 {
        let half = n / 2;
        let mut w = Worker::spawn()?;
        match w.ask(mode, a, lo, half) {
            None => n = half,
            Some(_) => {
                lo += half;
                n -= half;
            }
        }
    }
    let mut w = Worker::spawn()?;
    if w.ask(mode, a, lo, 1).is_none() {
        Some(lo)
    } else {
        None
    }
}

#[derive(Clone, Debug, Serialize, Deserialize)]
pub struct DecCase {
    pub reference: Vec<u8>,
    pub data: Vec<u8>,
}

/// replay / shrink probe of one decoder input in a fresh child: Some(sig,msg) if it violates
pub fn probe_decode(c: &DecCase) -> Option<(String, String)> {
    let exe = std::env::current_exe().ok()?;
    let mut child = malloc_env(Command::new(exe).arg("codec-one")).stdin(Stdio::piped()).stdout(Stdio::piped()).stderr(Stdio::null()).spawn().ok()?;
    {
        let mut si = child.stdin.take()?;
        let _ = writeln!(si, "{}", serde_json::to_string(c).ok()?);
    }
    let outp = child.wait_with_output().ok()?;
    let txt = String::from_utf8_lossy(&outp.stdout).to_string();
    if !outp.status.success() || txt.trim().is_empty() {
        return Some(("C14.abort".into(), format!("decode of {:02x?} (reference {:02x?}) killed the process ({:?}): allocation failure / abort", c.data, c.reference, outp.status)));
    }
    let t = txt.trim();
    if let Some(rest) = t.strip_prefix("V ") {
        let sig = rest.split('|').take(2).collect::<Vec<_>>().join("|");
        return Some((sig, format!("decode of {:02x?} (reference {:02x?}): {}", c.data, c.reference, rest)));
    }
    None
}

pub fn one_main() -> ! {
    crate::sim::world::QUIET_PANICS.with(|q| q.set(true));
    unsafe {
        let lim = libc::rlimit { rlim_cur: 4 << 30, rlim_max: 4 << 30 };
        libc::setrlimit(libc::RLIMIT_AS, &lim);
    }
    let mut line = String::new();
    let _ = std::io::stdin().read_line(&mut line);
    let Ok(c) = serde_json::from_str::<DecCase>(&line) else { std::process::exit(3) };
    match judge_decode(&c.reference, &c.data) {
        Ok((ok, peak)) => println!("P {} {}", ok, peak),
        Err((_, d)) => println!("V {}", d),
    }
    std::process::exit(0);
}

fn shrink_dec(c: DecCase, sig: &str) -> DecCase {
    let cands = |c: &DecCase| {
        let mut v = Vec::new();
        for i in 0..c.data.len() {
            let mut d = c.clone();
            d.data.remove(i);
            v.push(d);
        }
        if !c.reference.is_empty() {
            let mut d = c.clone();
            d.reference.clear();
            v.push(d);
        }
        for i in 0..c.data.len() {
            for nb in [0u8, 0x80, 0x01] {
                if c.data[i] != nb && nb < c.data[i] {
                    let mut d = c.clone();
                    d.data[i] = nb;
                    v.push(d);
                }
            }
        }
        v
    };
    let sig_kind = |s: &str| s.split('|').next().unwrap_or("").to_string();
    let want = sig_kind(sig);
    let mut cur = c;
    let mut steps = 0;
    'outer: loop {
        for cand in cands(&cur) {
            steps += 1;
            if steps > 150 {
                break 'outer;
            }
            if let Some((s, _)) = probe_decode(&cand) {
                if sig_kind(&s) == want {
                    cur = cand;
                    continue 'outer;
                }
            }
        }
        break;
    }
    cur
}

pub fn decode_sweep(ctx: &Ctx, part: &str, rule: &str, mode: &'static str, a: u64, total: u64, batch: u64, exhaustive: bool) -> PartReport {
    let t = std::time::Instant::now();
    let next = AtomicU64::new(0);
    let stop = AtomicBool::new(false);
    let agg = Mutex::new((0u64, 0u64, 0usize, 0u64)); // ok, err, max_peak, evaluated
    let first: Mutex<Option<(u64, String, String)>> = Mutex::new(None);
    // distinctness is measured exactly (global hash set) over the first DISTINCT_WINDOW inputs of a
    // randomly generated campaign; later inputs are not counted as distinct (conservative)
    const DISTINCT_WINDOW: u64 = 4_000_000;
    let distinct: Mutex<std::collections::HashSet<u64>> = Mutex::new(std::collections::HashSet::new());
    std::thread::scope(|scope| {
        for _ in 0..ctx.workers.max(1) {
            scope.spawn(|| {
                let mut w = Worker::spawn();
                loop {
                    let start = next.fetch_add(batch, Ordering::Relaxed);
                    if start >= total || stop.load(Ordering::Relaxed) {
                        break;
                    }
                    let count = batch.min(total - start);
                    let want_h = !exhaustive && start < DISTINCT_WINDOW;
                    let reply = match w.as_mut() {
                        Some(wk) => wk.ask_h(mode, a, start, count, want_h),
                        None => None,
                    };
                    match reply {
                        Some(r) => {
                            let mut g = agg.lock().unwrap();
                            g.0 += r.n_ok;
                            g.1 += r.n_err;
                            g.2 = g.2.max(r.max_peak);
                            g.3 += count;
                            drop(g);
                            if !r.hashes.is_empty() {
                                distinct.lock().unwrap().extend(r.hashes.iter().copied());
                            }
                            if r.viol_idx >= 0 {
                                let mut f = first.lock().unwrap();
                                if f.as_ref().map(|x| (r.viol_idx as u64) < x.0).unwrap_or(true) {
                                    let sig = r.detail.split('|').take(2).collect::<Vec<_>>().join("|");
                                    let _ = r.viol_kind;
                                    *f = Some((r.viol_idx as u64, sig, r.detail.clone()));
                                }
                                stop.store(true, Ordering::Relaxed);
                            }
                        }
                        None => {
                            // the child died: find the input that kills a fresh child
                            w = Worker::spawn();
                            if let Some(i) = bisect_death(mode, a, start, count) {
                                let mut f = first.lock().unwrap();
                                if f.as_ref().map(|x| i < x.0).unwrap_or(true) {
                                    *f = Some((i, "C14.abort".into(), "decode killed the process (allocation failure / abort)".into()));
                                }
                                stop.store(true, Ordering::Relaxed);
                            } else {
                                eprintln!("[C14:{part}] a worker died on batch {start}+{count} but no single input reproduces it (treated as harness trouble)");
                            }
                        }
                    }
                }
            });
        }
    });
    let g = agg.into_inner().unwrap();
    let mut rep = PartReport::default();
    rep.name = part.to_string();
    rep.rule = rule.to_string();
    rep.evaluations = g.3;
    rep.nontrivial = g.0 + g.1;
    // enumerations are distinct by construction; random campaigns: measured over the first window only
    rep.distinct_nontrivial = if exhaustive { g.0 + g.1 } else { distinct.into_inner().unwrap().len() as u64 };
    rep.counters.insert("decode_ok".into(), g.0);
    rep.counters.insert("decode_err".into(), g.1);
    rep.counters.insert("max_peak_alloc_bytes".into(), g.2 as u64);
    rep.exhaustive = exhaustive;
    for i in [0u64, total / 3, total / 2, total - 1] {
        let (r, d) = worker_input(mode, a, i.min(total.saturating_sub(1)));
        rep.samples.push(json!({"case": {"reference": r, "data": d}, "index": i}));
    }
    if let Some((i, sig, detail)) = first.into_inner().unwrap() {
        let (reference, data) = worker_input(mode, a, i);
        let c = shrink_dec(DecCase { reference, data }, &sig);
        let (sig2, msg) = probe_decode(&c).unwrap_or((sig.clone(), detail));
        if is_known_sig(ctx, &sig2) {
            *rep.known_hits.entry(sig_key(&sig2)).or_insert(0) += 1;
        } else {
            let (case_v, path) = write_replay(ctx, "decode", &c, &sig2, &msg);
            rep.violation = Some(ViolationReport { part: part.to_string(), sig: sig2, msg, case: case_v, replay: path });
        }
    }
    rep.wall_s = t.elapsed().as_secs_f64();
    rep
}

fn is_known_sig(ctx: &Ctx, sig: &str) -> bool {
    let k = sig_key(sig);
    ctx.known.iter().any(|f| f.prop == ctx.prop && f.sig == k)
}

pub fn run(ctx: &Ctx) -> PropReport {
    let mut rep = PropReport::new("C14", "exploration");
    rep.part(|| run_random(
        ctx,
        "roundtrip",
        "proptest: reference and 0..=12 inputs of length 0..=40 built from runs of 0x00/0xFF/repeated/random bytes and varint-ish bytes, a third of the cases same-size near-identical inputs; oracle decode(ref, encode(ref, xs)) == xs; non-trivial = at least one non-empty input",
        || rt_strategy(40, 12),
        ctx.tier.pick(200_000, 1_500_000),
        eval_rt,
    ));
    rep.part(|| run_random(
        ctx,
        "roundtrip_long",
        "proptest: sequences of 100..=256 inputs (an endpoint re-sends up to 129 unacknowledged inputs in one packet; 256 is the decoder's documented per-packet limit) of length 0..=6, mostly near-identical as in a session; same oracle",
        || rt_strategy(6, 256).prop_filter("long", |c| c.inputs.len() >= 100).boxed(),
        ctx.tier.pick(1500, 10000),
        eval_rt,
    ));
    rep.part(|| run_random(
        ctx,
        "roundtrip_big",
        "proptest: 1-3 inputs of length up to 65535 (the u16 length prefix's maximum; 65535 and 65534 weighted) with zero/0xFF/random/striped content against a reference of up to 300 bytes; same oracle",
        rt_big_strategy,
        ctx.tier.pick(300, 3000),
        eval_rt,
    ));
    rep.part(|| run_random(
        ctx,
        "roundtrip_runs",
        "proptest: 1..=16 inputs of one length (65535 weighted; 65534, 0xFF00, 0x00FF, 0x0101, random) in which every input is its predecessor XOR a constant byte (0xFF weighted; 0x00, 0x01, 0x80, random), the first one the (same-length random / zero / half-length / empty) reference XOR that byte, with 0..=2 single-byte blemishes: the delta layer is one long run of a single byte value across all inputs of the packet (up to 16 x 65537 bytes: run lengths that need 4-byte varints in the run-length layer); same oracle",
        rt_runs_strategy,
        ctx.tier.pick(400, 4000),
        eval_rt,
    ));
    let refs = ctx.tier.pick(5u64, 21u64);
    rep.part(|| run_enum(
        ctx,
        "roundtrip_exhaustive",
        "bounded-exhaustive: alphabet {00,01,80,FF}; every reference of length <= 1 (quick) / <= 2 (thorough) x every sequence of <= 3 inputs of length <= 3; same oracle",
        refs * N_SEQ3,
        rt_exh_case,
        eval_rt,
        true,
    ));
    // totality
    let maxlen = 3;
    let n = exh_count(maxlen);
    for (ri, _) in REFS.iter().enumerate() {
        rep.part(|| decode_sweep(
            ctx,
            &format!("decode_exhaustive_ref{ri}"),
            "bounded-exhaustive: every byte string of length <= 3 as decoder input against a fixed reference, run in supervised child processes (RLIMIT_AS 4 GiB): the call must return Ok or Err without panic, abort or a peak allocation above 4 x 128 x (2+65535) bytes (counting allocator)",
            "exh",
            ri as u64,
            n,
            1 << 16,
            true,
        ));
    }
    rep.part(|| decode_sweep(
        ctx,
        "decode_random",
        "indexed random generation in child processes: 1/3 raw strings (1..=24 bytes) biased to varint continuation bytes and run headers, 1/2 mutations (bit flip, truncate, insert, 0xFF, +2) of valid encodings of near-identical inputs, 1/6 grammar-aware token sequences (run / literal headers with boundary lengths 2^7k-1..2^7k+1, up to 2^64-1, encoded minimally or as over-long varints of up to 11 bytes with stray bits in the last byte; literals followed by too few / enough / too many bytes); same totality oracle; distinctness is counted exactly over the first 4,000,000 generated inputs only (conservative)",
        "rand",
        ctx.seed,
        ctx.tier.pick(20_000_000, 400_000_000),
        1 << 15,
        false,
    ));
    rep.assumptions = vec![
        "peak allocation is measured by a counting global allocator around the single decode call; an abort is observed as the death of the worker process and attributed by bisection".into(),
        "the bound 'small multiple of a legitimate packet' is taken as 4 x 128 x (2 + 65535) bytes".into(),
    ];
    rep
}

pub fn replay(part: &str, case: &serde_json::Value) -> Option<CaseResult> {
    if part == "decode" {
        let c: DecCase = serde_json::from_value(case.clone()).ok()?;
        let mut r = CaseResult::default();
        r.violation = probe_decode(&c);
        r.summary = format!("decode input {:02x?}", c.data);
        Some(r)
    } else {
        let c: RtCase = serde_json::from_value(case.clone()).ok()?;
        Some(eval_rt(&c))
    }
}
