//! C16 - invalid configurations and API misuse are rejected with errors, never panics.
use super::common::*;
use crate::engine::*;
use crate::gen::*;
use crate::sim::game::Game;
use crate::sim::net::*;
use crate::sim::scenario::*;
use crate::sim::types::*;
use crate::sim::world::*;
use ggrs::*;
use proptest::prelude::*;
use serde::{Deserialize, Serialize};
use std::collections::BTreeMap;
use std::panic::{catch_unwind, AssertUnwindSafe};
use std::time::Duration;

type TC = Cfg<I1, PredictRepeatLast>;

#[derive(Clone, Copy, Debug, Serialize, Deserialize, PartialEq, Eq, Hash)]
pub enum BCall {
    NumPlayers(u8),
    AddLocal(u8),
    AddRemote(u8, u8),
    AddSpectator(u8, u8),
    Fps(u8),
    Window(u8),
    Delay(u8),
    CheckDist(u8),
    MaxBehind(u8),
    Catchup(u8),
    Desync(u8), // 0 off, 1 => On{0}, n => On{n-1}
    Sparse(bool),
    /// with_disconnect_timeout(100 ms x n)
    Timeout(u8),
    /// with_disconnect_notify_delay(100 ms x n); no relation to the timeout is documented or checked
    NotifyDelay(u8),
}

#[derive(Clone, Debug, Serialize, Deserialize, PartialEq, Eq, Hash)]
pub struct BCase {
    pub calls: Vec<BCall>,
    /// 0 p2p, 1 synctest, 2 spectator
    pub start: u8,
    pub seed: u64,
}

/// all calls of the small domains, in a fixed order
pub fn domain() -> Vec<BCall> {
    let mut v = Vec::new();
    for n in 0..=4 {
        v.push(BCall::NumPlayers(n));
    }
    for h in 0..=5 {
        v.push(BCall::AddLocal(h));
    }
    for h in 0..=5 {
        for a in [2u8, 3] {
            v.push(BCall::AddRemote(h, a));
        }
    }
    for h in 0..=5 {
        for a in [2u8, 3, 4] {
            v.push(BCall::AddSpectator(h, a));
        }
    }
    for f in [0u8, 1, 60] {
        v.push(BCall::Fps(f));
    }
    for w in [0u8, 1, 8, 16] {
        v.push(BCall::Window(w));
    }
    for d in [0u8, 2, 16] {
        v.push(BCall::Delay(d));
    }
    for c in [0u8, 2, 8, 16] {
        v.push(BCall::CheckDist(c));
    }
    for m in [0u8, 1, 59, 60] {
        v.push(BCall::MaxBehind(m));
    }
    for c in [0u8, 1, 70] {
        v.push(BCall::Catchup(c));
    }
    for d in [0u8, 1, 4] {
        v.push(BCall::Desync(d));
    }
    v.push(BCall::Sparse(true));
    v.push(BCall::Sparse(false));
    for t in [0u8, 3, 30] {
        v.push(BCall::Timeout(t));
    }
    for t in [0u8, 3, 30] {
        v.push(BCall::NotifyDelay(t));
    }
    v
}

#[derive(Clone, Debug, PartialEq)]
enum PT {
    Local,
    Remote(u8),
    Spectator(u8),
}

/// the reference model of the documented builder rules
#[derive(Clone, Debug)]
struct Model {
    num_players: usize,
    handles: BTreeMap<usize, PT>,
    fps: usize,
    window: usize,
    delay: usize,
    check_dist: usize,
    max_behind: usize,
    catchup: usize,
    desync: Option<u32>,
    sparse: bool,
}
impl Model {
    fn new() -> Self {
        Model { num_players: 2, handles: BTreeMap::new(), fps: 60, window: 8, delay: 0, check_dist: 2, max_behind: 10, catchup: 1, desync: None, sparse: false }
    }
    fn handle_ok(pt: &PT, h: usize, n: usize) -> bool {
        match pt {
            PT::Local | PT::Remote(_) => h < n,
            PT::Spectator(_) => h >= n,
        }
    }
    /// returns whether the documentation says the call succeeds, and applies it if so
    fn apply(&mut self, c: &BCall) -> bool {
        match c {
            BCall::NumPlayers(n) => {
                let n = *n as usize;
                if n == 0 || self.handles.iter().any(|(h, pt)| !Self::handle_ok(pt, *h, n)) {
                    return false;
                }
                self.num_players = n;
                true
            }
            BCall::AddLocal(h) | BCall::AddRemote(h, _) | BCall::AddSpectator(h, _) => {
                let pt = match c {
                    BCall::AddLocal(_) => PT::Local,
                    BCall::AddRemote(_, a) => PT::Remote(*a),
                    BCall::AddSpectator(_, a) => PT::Spectator(*a),
                    _ => unreachable!(),
                };
                let h = *h as usize;
                if self.handles.contains_key(&h) || !Self::handle_ok(&pt, h, self.num_players) {
                    return false;
                }
                self.handles.insert(h, pt);
                true
            }
            BCall::Fps(f) => {
                if *f == 0 {
                    return false;
                }
                self.fps = *f as usize;
                true
            }
            BCall::Window(w) => {
                self.window = *w as usize;
                true
            }
            BCall::Delay(d) => {
                self.delay = *d as usize;
                true
            }
            BCall::CheckDist(c) => {
                self.check_dist = *c as usize;
                true
            }
            BCall::MaxBehind(m) => {
                if *m == 0 || *m as usize >= 60 {
                    return false;
                }
                self.max_behind = *m as usize;
                true
            }
            BCall::Catchup(c) => {
                if *c == 0 {
                    return false;
                }
                self.catchup = *c as usize;
                true
            }
            BCall::Desync(d) => {
                self.desync = if *d == 0 { None } else { Some(*d as u32 - 1) };
                true
            }
            BCall::Sparse(s) => {
                self.sparse = *s;
                true
            }
            // accepted unconditionally (any pair of values)
            BCall::Timeout(_) | BCall::NotifyDelay(_) => true,
        }
    }
    fn start_ok(&self, start: u8) -> bool {
        match start {
            0 => self.desync != Some(0) && (0..self.num_players).all(|h| self.handles.contains_key(&h)),
            1 => self.check_dist < self.window && !self.sparse,
            _ => true,
        }
    }
}

fn real_apply(b: SessionBuilder<TC>, c: &BCall) -> Result<SessionBuilder<TC>, GgrsError> {
    Ok(match c {
        BCall::NumPlayers(n) => b.with_num_players(*n as usize)?,
        BCall::AddLocal(h) => b.add_player(PlayerType::Local, *h as usize)?,
        BCall::AddRemote(h, a) => b.add_player(PlayerType::Remote(*a), *h as usize)?,
        BCall::AddSpectator(h, a) => b.add_player(PlayerType::Spectator(*a), *h as usize)?,
        BCall::Fps(f) => b.with_fps(*f as usize)?,
        BCall::Window(w) => b.with_max_prediction_window(*w as usize),
        BCall::Delay(d) => b.with_input_delay(*d as usize),
        BCall::CheckDist(c) => b.with_check_distance(*c as usize),
        BCall::MaxBehind(m) => b.with_max_frames_behind(*m as usize)?,
        BCall::Catchup(c) => b.with_catchup_speed(*c as usize)?,
        BCall::Desync(d) => b.with_desync_detection_mode(if *d == 0 { DesyncDetection::Off } else { DesyncDetection::On { interval: *d as u32 - 1 } }),
        BCall::Sparse(s) => b.with_sparse_saving_mode(*s),
        BCall::Timeout(t) => b.with_disconnect_timeout(Duration::from_millis(*t as u64 * 100)),
        BCall::NotifyDelay(t) => b.with_disconnect_notify_delay(Duration::from_millis(*t as u64 * 100)),
    })
}

fn base_builder(m: &Model) -> SessionBuilder<TC> {
    let mut b = SessionBuilder::<TC>::new()
        .with_num_players(m.num_players)
        .unwrap()
        .with_max_prediction_window(m.window)
        .with_input_delay(m.delay)
        .with_fps(m.fps)
        .unwrap()
        .with_sparse_saving_mode(m.sparse)
        .with_disconnect_timeout(Duration::from_millis(2000));
    if let Some(i) = m.desync {
        b = b.with_desync_detection_mode(DesyncDetection::On { interval: i });
    }
    b
}

/// drives the accepted main session together with complementary sessions for every other address
fn drive_p2p(main: P2PSession<TC>, m: &Model, net: &Net, seed: u64, ticks: u32) -> Result<(u64, bool), String> {
    let np = m.num_players;
    let mut remotes: Vec<u8> = m.handles.values().filter_map(|p| if let PT::Remote(a) = p { Some(*a) } else { None }).collect();
    remotes.sort();
    remotes.dedup();
    let mut specs: Vec<u8> = m.handles.values().filter_map(|p| if let PT::Spectator(a) = p { Some(*a) } else { None }).collect();
    specs.sort();
    specs.dedup();
    let mut sessions: Vec<(u8, P2PSession<TC>, Vec<usize>)> = Vec::new();
    let main_locals: Vec<usize> = m.handles.iter().filter(|(_, p)| **p == PT::Local).map(|(h, _)| *h).collect();
    sessions.push((1, main, main_locals));
    for a in &remotes {
        let mut b = base_builder(m);
        let mut locals = Vec::new();
        for h in 0..np {
            let pt = match m.handles.get(&h) {
                Some(PT::Local) => PlayerType::Remote(1),
                Some(PT::Remote(x)) if x == a => {
                    locals.push(h);
                    PlayerType::Local
                }
                Some(PT::Remote(x)) => PlayerType::Remote(*x),
                _ => return Err("model: missing handle".into()),
            };
            b = b.add_player(pt, h).map_err(|e| format!("complementary builder: {e:?}"))?;
        }
        let s = b.start_p2p_session(SimSocket { me: *a, net: net.clone() }).map_err(|e| format!("complementary start: {e:?}"))?;
        sessions.push((*a, s, locals));
    }
    let mut spec_sessions: Vec<SpectatorSession<TC>> = Vec::new();
    for s in &specs {
        if remotes.contains(s) {
            continue; // address already used by a player session
        }
        let b = base_builder(m).with_max_frames_behind(m.max_behind).unwrap().with_catchup_speed(m.catchup).unwrap();
        spec_sessions.push(b.start_spectator_session(1, SimSocket { me: *s, net: net.clone() }));
    }
    let mut games: Vec<Game> = sessions.iter().map(|_| Game::new(np, m.window, true)).collect();
    let mut advanced = 0u64;
    let mut all_running = false;
    let fm = (1000 / m.fps.max(1) as u64).max(1).min(50);
    for _t in 0..ticks {
        ggrs::verif_hooks::clock::advance_millis(fm);
        for (i, (_, s, locals)) in sessions.iter_mut().enumerate() {
            let f = s.current_frame();
            for h in locals.iter() {
                s.add_local_input(*h, I1::from_v(true_input(seed, *h, f, 4))).map_err(|e| format!("add_local_input({h}) on an accepted session: {e:?}"))?;
            }
            match s.advance_frame() {
                Ok(reqs) => {
                    let a = games[i].handle(reqs, |x: I1| x.to_v());
                    advanced += a.len() as u64;
                }
                Err(GgrsError::NotSynchronized) => {}
                Err(e) => return Err(format!("advance_frame on an accepted session returned {e:?}")),
            }
            for _ in s.events() {}
        }
        for s in spec_sessions.iter_mut() {
            match s.advance_frame() {
                Ok(_) | Err(GgrsError::NotSynchronized) | Err(GgrsError::PredictionThreshold) | Err(GgrsError::SpectatorTooFarBehind) => {}
                Err(e) => return Err(format!("spectator advance_frame returned {e:?}")),
            }
            for _ in s.events() {}
        }
        all_running = sessions.iter().all(|s| s.1.current_state() == SessionState::Running);
    }
    for g in &games {
        if let Some((c, msg)) = g.errors.first() {
            return Err(format!("request contract broken on an accepted configuration: {c}: {msg}"));
        }
    }
    // a hitch: everybody else falls silent and the main session is not polled for 3.5 s (longer than any
    // configured notify delay or timeout, in either order), then polled and advanced again: whatever the timeouts,
    // nothing may panic or return an unexpected error
    ggrs::verif_hooks::clock::advance_millis(3500);
    for _t in 0..40 {
        let (_, s, locals) = &mut sessions[0];
        s.poll_remote_clients();
        let f = s.current_frame();
        for h in locals.iter() {
            let _ = s.add_local_input(*h, I1::from_v(true_input(seed, *h, f, 4)));
        }
        match s.advance_frame() {
            Ok(reqs) => {
                games[0].handle(reqs, |x: I1| x.to_v());
            }
            Err(GgrsError::NotSynchronized) | Err(GgrsError::InvalidRequest { .. }) => {}
            Err(e) => return Err(format!("advance_frame after a 3.5 s hitch returned {e:?}")),
        }
        for _ in s.events() {}
        ggrs::verif_hooks::clock::advance_millis(fm);
    }
    Ok((advanced, all_running))
}

pub fn eval(c: &BCase) -> CaseResult {
    let mut r = CaseResult::default();
    ggrs::verif_hooks::clock::set_micros(1_000_000);
    ggrs::verif_hooks::rand::seed(c.seed);
    let mut model = Model::new();
    let mut builder = Some(SessionBuilder::<TC>::new());
    let mut rejected_at: Option<usize> = None;
    for (i, call) in c.calls.iter().enumerate() {
        let b = builder.take().unwrap();
        let mut m2 = model.clone();
        let expect_ok = m2.apply(call);
        let res = catch_unwind(AssertUnwindSafe(|| real_apply(b, call)));
        match res {
            Err(_) => {
                r.violation = Some((format!("panic|{}", normalise(&take_panic())), format!("builder call #{i} {call:?} panicked")));
                return r;
            }
            Ok(Ok(nb)) => {
                if !expect_ok {
                    r.violation = Some((format!("C16.accepted|{}", kind_of(call)), format!("call #{i} {call:?} was accepted but the documentation says InvalidRequest (model state {model:?})")));
                    return r;
                }
                model = m2;
                builder = Some(nb);
            }
            Ok(Err(GgrsError::InvalidRequest { .. })) => {
                if expect_ok {
                    r.violation = Some((format!("C16.rejected|{}", kind_of(call)), format!("call #{i} {call:?} returned InvalidRequest but the documentation allows it (model state {model:?})")));
                    return r;
                }
                rejected_at = Some(i);
                break;
            }
            Ok(Err(e)) => {
                r.violation = Some(("C16.error_kind".into(), format!("call #{i} {call:?} returned {e:?} instead of InvalidRequest")));
                return r;
            }
        }
    }
    if rejected_at.is_some() {
        r.classes.push("rejected_by_setter");
        r.nontrivial = true;
        r.summary = format!("rejected at call {:?}", rejected_at);
        return r;
    }
    let b = builder.take().unwrap();
    let expect = model.start_ok(c.start);
    let net = new_net(c.seed, LinkProfile::default());
    let m = model.clone();
    let seed = c.seed;
    let start = c.start;
    let res = catch_unwind(AssertUnwindSafe(move || -> Result<Option<(u64, bool)>, String> {
        match start {
            0 => match b.start_p2p_session(SimSocket { me: 1, net: net.clone() }) {
                Ok(s) => {
                    if !expect {
                        return Err("ACCEPT".into());
                    }
                    drive_p2p(s, &m, &net, seed, 220).map(Some)
                }
                Err(GgrsError::InvalidRequest { .. }) => {
                    if expect {
                        Err("REJECT".into())
                    } else {
                        Ok(None)
                    }
                }
                Err(e) => Err(format!("start_p2p_session returned {e:?}")),
            },
            1 => match b.start_synctest_session() {
                Ok(mut s) => {
                    if !expect {
                        return Err("ACCEPT".into());
                    }
                    let mut g = Game::new(m.num_players, m.window, false);
                    g.expect_save0 = m.check_dist > 0;
                    let mut n = 0;
                    for _ in 0..40 {
                        let f = s.current_frame();
                        for h in 0..m.num_players {
                            s.add_local_input(h, I1::from_v(true_input(seed, h, f, 4))).map_err(|e| format!("synctest add_local_input: {e:?}"))?;
                        }
                        let reqs = s.advance_frame().map_err(|e| format!("synctest advance_frame: {e:?}"))?;
                        n += g.handle(reqs, |x: I1| x.to_v()).len() as u64;
                    }
                    if let Some((c, msg)) = g.errors.first() {
                        return Err(format!("synctest request contract: {c}: {msg}"));
                    }
                    Ok(Some((n, true)))
                }
                Err(GgrsError::InvalidRequest { .. }) => {
                    if expect {
                        Err("REJECT".into())
                    } else {
                        Ok(None)
                    }
                }
                Err(e) => Err(format!("start_synctest_session returned {e:?}")),
            },
            _ => {
                let mut s = b.start_spectator_session(9, SimSocket { me: 1, net: net.clone() });
                for _ in 0..30 {
                    ggrs::verif_hooks::clock::advance_millis(16);
                    match s.advance_frame() {
                        Ok(_) | Err(GgrsError::NotSynchronized) | Err(GgrsError::PredictionThreshold) => {}
                        Err(e) => return Err(format!("spectator advance_frame: {e:?}")),
                    }
                    let _ = s.network_stats();
                    let _ = s.frames_behind_host();
                }
                Ok(Some((0, false)))
            }
        }
    }));
    let startname = ["start_p2p_session", "start_synctest_session", "start_spectator_session"][c.start.min(2) as usize];
    match res {
        Err(_) => {
            let same_addr = model.handles.values().any(|p| if let PT::Spectator(a) = p { model.handles.values().any(|q| *q == PT::Remote(*a)) } else { false });
            r.violation = Some((
                format!("panic|{}|{}{}", normalise(&take_panic()), startname, if same_addr { "|remote_and_spectator_share_address" } else { "" }),
                format!("an accepted configuration panicked while being started / polled / advanced ({startname}, calls {:?})", c.calls),
            ));
        }
        Ok(Err(e)) if e == "ACCEPT" => {
            r.violation = Some((format!("C16.accepted|{startname}"), format!("{startname} accepted a configuration the documentation rejects: {model:?}")));
        }
        Ok(Err(e)) if e == "REJECT" => {
            r.violation = Some((format!("C16.rejected|{startname}"), format!("{startname} rejected a configuration the documentation allows: {model:?}")));
        }
        Ok(Err(e)) => {
            r.violation = Some((format!("C16.accepted_session_misbehaves|{startname}"), e));
        }
        Ok(Ok(None)) => {
            r.classes.push("rejected_at_start");
            r.nontrivial = true;
        }
        Ok(Ok(Some((adv, running)))) => {
            r.classes.push("accepted_and_run");
            if running {
                r.classes.push("accepted_reached_running");
            }
            if adv > 0 {
                r.classes.push("accepted_advanced_frames");
            }
            r.nontrivial = true;
            r.counters.push(("frames_advanced_by_accepted_sessions", adv));
        }
    }
    r.summary = format!("calls={} start={} model_players={} handles={:?}", c.calls.len(), startname, model.num_players, model.handles);
    r
}

fn kind_of(c: &BCall) -> &'static str {
    match c {
        BCall::NumPlayers(_) => "with_num_players",
        BCall::AddLocal(_) | BCall::AddRemote(..) | BCall::AddSpectator(..) => "add_player",
        BCall::Fps(_) => "with_fps",
        BCall::Window(_) => "with_max_prediction_window",
        BCall::Delay(_) => "with_input_delay",
        BCall::CheckDist(_) => "with_check_distance",
        BCall::MaxBehind(_) => "with_max_frames_behind",
        BCall::Catchup(_) => "with_catchup_speed",
        BCall::Desync(_) => "with_desync_detection_mode",
        BCall::Sparse(_) => "with_sparse_saving_mode",
        BCall::Timeout(_) => "with_disconnect_timeout",
        BCall::NotifyDelay(_) => "with_disconnect_notify_delay",
    }
}

fn exh_case(i: u64, len: u32, dom: &[BCall], seed: u64) -> BCase {
    let mut k = i;
    let start = (k % 3) as u8;
    k /= 3;
    let mut calls = Vec::new();
    for _ in 0..len {
        calls.push(dom[(k % dom.len() as u64) as usize]);
        k /= dom.len() as u64;
    }
    BCase { calls, start, seed }
}

fn random_case() -> BoxedStrategy<BCase> {
    let dom = domain();
    let n = dom.len();
    // biased towards programs that can actually start: a plausible prefix plus random calls
    (proptest::collection::vec(0..n, 0..7), 0u8..3, any::<u64>(), any::<u8>(), 1u8..=4)
        .prop_map(move |(ix, start, seed, shape, np)| {
            let mut calls: Vec<BCall> = Vec::new();
            if shape % 2 == 0 {
                calls.push(BCall::NumPlayers(np));
                for h in 0..np {
                    calls.push(match (shape as usize + h as usize) % 3 {
                        0 => BCall::AddLocal(h),
                        1 => BCall::AddRemote(h, 2),
                        _ => BCall::AddRemote(h, 3),
                    });
                }
            }
            for i in ix {
                calls.push(dom[i]);
            }
            BCase { calls, start, seed }
        })
        .boxed()
}

// ------------------------------------------------------------------ run-time misuse (metamorphic)

pub const MISUSE_PROPS: &[&str] = &["C16", "C01", "C02", "C03"];

fn misuse_fingerprint(o: &Outcome, upto: &[i32]) -> Vec<String> {
    let mut v = Vec::new();
    for (i, p) in o.peers.iter().enumerate() {
        let n = ((upto[i] + 1).max(0) as usize).min(p.timeline.len());
        let mut h = 0u64;
        for f in 0..n {
            for (val, st) in &p.timeline[f] {
                h = mix(h, (*val as u64) << 1 | (*st == ST_DISC) as u64);
            }
            h = mix(h, p.after[f]);
        }
        v.push(format!("peer{i} trace={:x} inputs_states_to_{}={:x} frame={} conf={} cs={:?}", p.trace_hash, upto[i], h, p.current_frame, p.last_conf, p.cs));
        // per remote address: the order of events of different addresses raised by one poll is unspecified
        let mut by: BTreeMap<Option<u8>, Vec<&(u64, Ev)>> = BTreeMap::new();
        for e in &p.events {
            by.entry(e.1.addr()).or_default().push(e);
        }
        for (a, evs) in by {
            v.push(format!("peer{i} events[{a:?}]={:?}", evs));
        }
    }
    v
}

pub fn eval_misuse(sc: &Scenario) -> CaseResult {
    let out = run(sc, &RunOpts::default());
    let mut r = CaseResult::default();
    r.classes = base_classes(sc, &out);
    r.counters = base_counters(&out);
    r.summary = summary(sc, &out);
    r.violation = first_violation(&out, MISUSE_PROPS);
    if r.violation.is_none() {
        // "advancing ... before synchronisation" returns the documented error: a successful advance_frame while a
        // remote address (player or spectator) has not produced Synchronized yet is this property's business too
        r.violation = out.viols.iter().find(|v| v.clause == "C12.advanced_before_synchronized").map(|v| ("C16.advanced_before_synchronized".to_string(), format!("[{} tick {}] {}", v.node, v.tick, v.msg)));
    }
    if r.violation.is_none() {
        // twin: the same run with every misuse call removed, except that calls which poll internally
        // (advance_frame without inputs) are replaced by a bare poll at the same point
        let mut t = sc.clone();
        t.ops = sc
            .ops
            .iter()
            .filter_map(|o| match o {
                Op::Misuse { tick, peer, kind: 1 | 6, arg } => Some(Op::Misuse { tick: *tick, peer: *peer, kind: 99, arg: *arg }),
                Op::Misuse { .. } => None,
                other => Some(other.clone()),
            })
            .collect();
        let o2 = run(&t, &RunOpts::default());
        let upto: Vec<i32> = out.peers.iter().zip(o2.peers.iter()).map(|(x, y)| x.last_conf.min(y.last_conf).min(x.timeline.len() as i32 - 1).min(y.timeline.len() as i32 - 1)).collect();
        let (a, b) = (misuse_fingerprint(&out, &upto), misuse_fingerprint(&o2, &upto));
        if a != b {
            let only_a = a.iter().find(|x| !b.contains(x)).cloned().unwrap_or_default();
            let only_b = b.iter().find(|x| !a.contains(x)).cloned().unwrap_or_default();
            r.violation = Some(("C16.misuse_changes_behaviour".into(), format!("the run with the rejected misuse calls differs from the run without them: WITH: {} / WITHOUT: {}", &only_a[..only_a.len().min(500)], &only_b[..only_b.len().min(500)])));
        }
    }
    let n: usize = out.peers.iter().map(|p| p.misuse_results.iter().filter(|m| m.1 != 99 && m.1 != 50).count()).sum();
    r.nontrivial = n > 0;
    r.counters.push(("misuse_calls_made", n as u64));
    for p in &out.peers {
        for m in &p.misuse_results {
            r.classes.push(match m.1 {
                0 => "add_local_input_wrong_handle",
                1 => "advance_without_input_or_before_sync",
                6 => "advance_with_inputs_for_some_local_players_only",
                3 => "disconnect_local_unknown_or_twice",
                4 => "set_input_delay_wrong_type",
                5 => "network_stats_wrong_type",
                _ => "other",
            });
        }
    }
    if let Some(t1) = sc.ops.iter().find_map(|o| if let Op::Disconnect { tick, .. } = o { Some(*tick) } else { None }) {
        if out.peers[0].misuse_results.iter().any(|m| m.1 == 3 && m.0 >= t1 + 320) {
            r.classes.push("disconnect_again_after_endpoint_shutdown");
        }
    }
    r.classes.sort();
    r.classes.dedup();
    r
}

pub fn gen_misuse(tier: Tier) -> BoxedStrategy<Scenario> {
    let mut p = GenParams::default();
    p.ticks = tier.pick((150, 500), (300, 1200));
    p.max_specs = 1;
    p.pauses = 0;
    p.outages = 0;
    p.windows.push((2, 0));
    (scenario(&p), proptest::collection::vec((any::<u16>(), any::<u16>(), 0u8..7, 0u8..9), 1..16))
        .prop_map(|(mut sc, ms)| {
            let np = sc.peers.len();
            for (t, pe, kind, arg) in ms {
                let kind = [0u8, 1, 3, 4, 5, 6, 6][kind as usize % 7];
                let tick = if t % 5 == 0 { (t % 12) as u32 } else { idx(t, sc.ticks.max(1) as usize) as u32 };
                sc.ops.push(Op::Misuse { tick, peer: idx(pe, np) as u8, kind, arg });
            }
            if np == 2 && sc.seed % 2 == 0 {
                // a valid disconnect_player (the remote dies at the same moment), then the same call again
                // 1 tick, half a second and more than five seconds later (the endpoint has shut down by then)
                let t1 = 40 + (sc.seed >> 8) as u32 % 60;
                let handle = sc.peers[0].locals;
                sc.ticks = sc.ticks.max(t1 + 460);
                sc.ops.push(Op::Disconnect { tick: t1, peer: 0, handle });
                sc.ops.push(Op::Kill { tick: t1, peer: 1 });
                for dt in [1u32, 30, 330 + (sc.seed >> 16) as u32 % 40, 440] {
                    sc.ops.push(Op::Misuse { tick: t1 + dt, peer: 0, kind: 3, arg: handle });
                }
            }
            sc
        })
        .boxed()
}

pub fn run_prop(ctx: &Ctx) -> PropReport {
    let mut rep = PropReport::new("C16", "exploration");
    let dom = domain();
    let d = dom.len() as u64;
    let seed = ctx.seed;
    let maxlen = ctx.tier.pick(3u32, 4u32);
    let rule = "builder call sequences over small domains (num_players 0..=4, handles 0..=5, Local/Remote(a|b)/Spectator(a|b|c), fps {0,1,60}, window {0,1,8,16}, delay {0,2,16}, check distance {0,2,8,16}, max_frames_behind {0,1,59,60}, catchup {0,1,70}, desync {Off,On 0,On 3}, sparse, disconnect timeout {0,0.3,3 s}, notify delay {0,0.3,3 s}) followed by start_p2p / start_synctest / start_spectator; every call's Ok/InvalidRequest must equal the reference predicate written from the rustdoc; every accepted configuration is run (P2P: together with complementary sessions for every other address, 220 ticks - beyond the 128-slot input ring - then a 3.5 s hitch during which everybody else falls silent, and 40 more calls; SyncTest: 40 frames with the strict game; spectator: polled/advanced alone) without panic or unexpected error";
    for len in 0..=maxlen {
        let n = 3 * d.pow(len);
        let dom2 = dom.clone();
        // length 4 is too large to enumerate completely even in the thorough tier: strided sample
        let (count, stride, exhaustive) = if len <= 3 { (n, 1, true) } else { (n / 11, 11, false) };
        rep.part(|| run_enum(ctx, &format!("builder_len{len}"), &format!("bounded-exhaustive (length {len}{}): {rule}", if exhaustive { "" } else { ", every 11th sequence" }), count, move |i| exh_case(i * stride, len, &dom2, mix(seed, i)), eval, exhaustive));
    }
    rep.part(|| run_random(ctx, "builder_random", &format!("random programs of up to 11 calls (half of them start with a plausible player registration): {rule}"), random_case, ctx.tier.pick(120_000, 1_000_000), eval));
    let tier = ctx.tier;
    rep.part(|| run_random(ctx, "misuse",
        "valid C01-style runs with 1-15 misuse calls inserted at arbitrary ticks (add_local_input for a non-local handle, advance_frame with an input missing or before synchronisation, disconnect_player for a local/unknown/already disconnected player, set_input_delay / network_stats for the wrong player type): each must return the documented error, nothing may panic, and the run must be identical (request traces, states, events, connection status) to the twin without those calls, where a call that polls internally is replaced by a bare poll",
        || gen_misuse(tier), ctx.tier.pick(5000, 20000), eval_misuse));
    rep.part(|| run_enum(ctx, "synctest_misuse",
        "SyncTestSession over C13's configurations (players 1..=4, window, check distance, delay): every 7th frame advance_frame() is first called with the last player's input missing while decoy values are registered for the others; it must return InvalidRequest without moving the frame, and the session must go on exactly as if the call had not been made: the inputs registered afterwards are the ones handed out (C13's input oracle), no mismatch, request contract intact",
        super::c13::DET_CONFIGS, move |i| {
            let mut c = super::c13::det_case(i, mix(seed, 0x5c16), 60);
            c.retry_misuse = true;
            c
        }, super::c13::eval, true));
    rep.assumptions = vec!["'exactly what the documentation allows' is the reference predicate in props/c16.rs (written from the rustdoc of SessionBuilder); input delay and prediction window are kept within 0..=16".into()];
    rep
}

pub fn replay(part: &str, case: &serde_json::Value) -> Option<CaseResult> {
    if part == "misuse" {
        let sc: Scenario = serde_json::from_value(case.clone()).ok()?;
        Some(eval_misuse(&sc))
    } else {
        let c: BCase = serde_json::from_value(case.clone()).ok()?;
        Some(eval(&c))
    }
}
