//! C01 - every peer's confirmed timeline equals the serial replay of the true inputs.
use super::common::*;
use crate::engine::*;
use crate::gen::*;
use crate::sim::scenario::Scenario;

pub const PROPS: &[&str] = &["C01"];

pub fn eval(sc: &Scenario) -> CaseResult {
    let (out, mut r) = eval_core(sc, PROPS, true);
    let compared: i32 = out.peers.iter().map(|p| p.last_conf).max().unwrap_or(-1);
    let dropped_inputs = out.net.dropped[crate::sim::wire::Class::Input as usize];
    r.nontrivial = out.total_rollbacks() > 0 && compared >= 150 && (sc.link.loss == 0 || dropped_inputs > 0) && !any_disconnect(&out);
    r
}

pub fn params(tier: Tier) -> GenParams {
    let mut p = GenParams::default();
    // tick rates other than the default 60 fps (the builder's with_fps follows the game's tick rate)
    p.fps = vec![60, 60, 60, 30, 120, 144];
    p.ticks = tier.pick((300, 1500), (3000, 6000));
    p
}

pub fn run(ctx: &Ctx) -> PropReport {
    let mut rep = PropReport::new("C01", "exploration");
    let p = params(ctx.tier);
    let cases = ctx.tier.pick(6000, 24000);
    let rule = "random 2-4 peer topologies x 1-2 local players x 0-2 spectators, windows 1..=12, delays 0..=6, sparse on/off, both predictors, both input types, jittered schedules with uneven speeds/pauses/outages, per-link loss/dup/latency; oracle: inputs of every confirmed frame == reference model of the delayed true input stream, final states == serial replay on every peer; non-trivial = >=1 rollback AND >=150 confirmed frames (input ring wrapped) AND (loss profile => >=1 input packet actually dropped) AND no disconnect";
    rep.parts.push(run_random(ctx, "p2p", rule, || scenario(&p), cases, eval));
    let mut pw = p.clone();
    pw.windows = vec![(1, 0)];
    pw.ticks = ctx.tier.pick((300, 900), (1500, 4000));
    rep.part(|| run_random(ctx, "lockstep",
        "the same space with prediction window 0 (lockstep): every simulated frame is final, so every AdvanceFrame must carry the true inputs and the states must equal the serial replay; all or a seeded subset of the peers drive the session through advance_frame_with_wait / _with_wait_timeout under an auto-ticking clock with link latency 0-45 ms (inputs arrive while the helper spins); non-trivial = >=150 confirmed frames AND >=1 stalled call AND no disconnect",
        || super::c02::lockstep_wait(&pw), ctx.tier.pick(2000, 8000),
        |sc| {
            let (out, mut r) = eval_core(sc, PROPS, true);
            let compared: i32 = out.peers.iter().map(|p| p.last_conf).max().unwrap_or(-1);
            let ls: u64 = out.peers.iter().map(|p| p.lockstep_stalls).sum();
            r.nontrivial = compared >= 150 && ls > 0 && !any_disconnect(&out);
            if out.peers.iter().any(|p| p.midwait_deliveries > 0) {
                r.classes.push("midwait_delivery");
            }
            r
        }));
    rep.floors.push(("p2p".into(), 0.3));
    rep.assumptions = vec![
        "virtual clock and deterministic rand shim (verif-hooks) replace instant/rand/SystemTime inside ggrs".into(),
        "fixed-size inputs only (1-byte and 4-byte structs); variable-size inputs with several local players per endpoint are outside the quantifier".into(),
        "the reference model of the delayed input stream (harness, 30 lines) is the statement of 'the input each player really submitted'".into(),
    ];
    rep
}
