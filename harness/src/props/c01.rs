//! C01 - every peer's confirmed timeline equals the serial replay of the true inputs.
use super::common::*;
use crate::engine::*;
use crate::gen::*;
use crate::sim::scenario::Scenario;

pub const PROPS: &[&str] = &["C01"];

pub fn eval(sc: &Scenario) -> CaseResult {
    let (out, mut r) = eval_core(sc, PROPS, true);
    let compared: i32 = out.peers.iter().map(|p| p.last_conf).max().unwrap_or(-1);
    let dropped_inputs = out.net.dropped[crate::sim::wire::Class::Input as usize];
    r.nontrivial = out.total_rollbacks() > 0 && compared >= 150 && (sc.link.loss == 0 || dropped_inputs > 0) && !any_disconnect(&out);
    r
}

pub fn params(tier: Tier) -> GenParams {
    let mut p = GenParams::default();
    p.ticks = tier.pick((300, 1500), (3000, 6000));
    p
}

pub fn run(ctx: &Ctx) -> PropReport {
    let mut rep = PropReport::new("C01", "exploration");
    let p = params(ctx.tier);
    let cases = ctx.tier.pick(6000, 24000);
    let rule = "random 2-4 peer topologies x 1-2 local players x 0-2 spectators, windows 1..=12, delays 0..=6, sparse on/off, both predictors, both input types, jittered schedules with uneven speeds/pauses/outages, per-link loss/dup/latency; oracle: inputs of every confirmed frame == reference model of the delayed true input stream, final states == serial replay on every peer; non-trivial = >=1 rollback AND >=150 confirmed frames (input ring wrapped) AND (loss profile => >=1 input packet actually dropped) AND no disconnect";
    rep.parts.push(run_random(ctx, "p2p", rule, || scenario(&p), cases, eval));
    rep.floors.push(("p2p".into(), 0.3));
    rep.assumptions = vec![
        "virtual clock and deterministic rand shim (verif-hooks) replace instant/rand/SystemTime inside ggrs".into(),
        "fixed-size inputs only (1-byte and 4-byte structs); variable-size inputs with several local players per endpoint are outside the quantifier".into(),
        "the reference model of the delayed input stream (harness, 30 lines) is the statement of 'the input each player really submitted'".into(),
    ];
    rep
}
