//! C12 - connection lifecycle events are well formed and correctly timed.
use super::common::*;
use super::posthoc::*;
use crate::engine::*;
use crate::gen::*;
use crate::sim::net::{Fault, LinkProfile};
use crate::sim::scenario::*;
use crate::sim::types::*;
use crate::sim::wire::Class;
use crate::sim::world::*;
use proptest::prelude::*;

pub const PROPS: &[&str] = &["C12"];

fn mute_spectator(sc: &Scenario) -> bool {
    sc.ops.iter().any(|o| matches!(o, Op::LinkDown { from, .. } if *from > 100))
}

pub fn eval(sc: &Scenario) -> CaseResult {
    let out = run(sc, &RunOpts::default());
    let mut r = CaseResult::default();
    r.classes = base_classes(sc, &out);
    r.counters = base_counters(&out);
    r.summary = summary(sc, &out);
    r.violation = first_violation(&out, PROPS);
    if r.violation.is_none() && sc.drain {
        r.violation = event_grammar(&out);
    }
    if r.violation.is_none() {
        r.violation = handshake_ledger(&out);
    }
    if r.violation.is_none() {
        r.violation = running_iff_all_synced(sc, &out);
    }
    if r.violation.is_none() && sc.peers.len() <= 2 && !mute_spectator(sc) {
        // a host's spectator endpoint can also be disconnected by the 128-pending-inputs cap when acks
        // are lost; that path is not a timeout and is judged by C18, so it is only predicted on loss-free links
        let lossy = sc.link.loss > 0 || !sc.faults.is_empty() || sc.ops.iter().any(|o| matches!(o, Op::Outage { from, .. } if *from > 100));
        // (the same cap applies once a spectator has itself given up on its host: it stops acknowledging)
        let spec_gave_up = |a: u8| a > 100 && out.specs.get(a as usize - 101).map(|s| s.events.iter().any(|e| matches!(e.1, Ev::Disconnected { .. }))).unwrap_or(false);
        r.violation = event_timing(sc, &out, &|n, a| n.starts_with("peer") && a > 100 && (lossy || spec_gave_up(a)));
    }
    if r.violation.is_none() {
        let m = out.peers.iter().map(|p| p.max_events_len).chain(out.specs.iter().map(|s| s.max_events_len)).max().unwrap_or(0);
        if m > 100 {
            r.violation = Some(("C12.event_queue_bound".into(), format!("events().len() reached {m} (> 100) on a session whose user never drains events")));
        }
    }
    if sc.poll_only && r.violation.is_none() {
        for (name, _, evs, _) in sessions(&out) {
            if let Some(e) = evs.iter().find(|e| matches!(e.1, Ev::Interrupted { .. } | Ev::Disconnected { .. })) {
                r.violation = Some(("C12.poll_only_interrupted".into(), format!("{name}: {:?} at {} ms although both sides poll with default timeouts on a loss-free link", e.1, e.0)));
            }
        }
    }
    let hs_lost = out.net.dropped[Class::SyncRequest as usize] + out.net.dropped[Class::SyncReply as usize];
    let pairs = out.peers.iter().map(|p| p.events.iter().filter(|e| matches!(e.1, Ev::Resumed { .. })).count()).sum::<usize>();
    let discs = out.peers.iter().map(|p| p.events.iter().filter(|e| matches!(e.1, Ev::Disconnected { .. })).count()).sum::<usize>();
    if hs_lost > 0 || out.net.duplicated > 0 {
        r.classes.push("handshake_packet_lost_or_dup");
    }
    if out.net.forged > 0 {
        r.classes.push("stray_sync_replies");
    }
    if pairs > 0 {
        r.classes.push("interrupted_resumed_pair");
    }
    if discs > 0 {
        r.classes.push("timeout_disconnect");
    }
    if !sc.drain {
        r.classes.push("never_drained");
    }
    r.counters.push(("max_undrained_events", out.peers.iter().map(|p| p.max_events_len as u64).max().unwrap_or(0)));
    r.counters.push(("handshake_packets_dropped", hs_lost));
    r.nontrivial = true;
    r
}

fn eval_handshake(sc: &Scenario) -> CaseResult {
    let mut r = eval(sc);
    r.nontrivial = r.classes.contains(&"handshake_packet_lost_or_dup") || r.classes.contains(&"stray_sync_replies");
    r
}
fn eval_silence(sc: &Scenario) -> CaseResult {
    let mut r = eval(sc);
    r.nontrivial = r.classes.contains(&"interrupted_resumed_pair") || r.classes.contains(&"timeout_disconnect") || r.classes.contains(&"interrupted");
    r
}

pub fn gen_handshake() -> BoxedStrategy<Scenario> {
    let mut p = GenParams::default();
    p.max_peers = 3;
    p.ticks = (150, 500);
    p.loss = vec![0, 10, 30, 50, 60];
    p.dup = vec![0, 10, 30, 50];
    p.outages = 0;
    p.pauses = 1;
    p.max_pause_ticks = 30;
    (scenario(&p), proptest::collection::vec((any::<u16>(), any::<u16>(), 0u8..3, any::<i32>(), 1u32..40), 0..10), proptest::collection::vec((any::<u16>(), 0u8..2, 1u32..14), 0..6))
        .prop_map(|(mut sc, forges, faults)| {
            let links = all_links(&sc);
            if sc.peers.len() >= 3 {
                // heavy loss must not end in a timeout disconnect in a 3-peer session (C10's space)
                sc.notify_ms = 3000;
                sc.timeout_ms = 30_000;
            }
            for (l, t, kind, a, at) in forges {
                let (from, to) = links[idx(l, links.len())];
                let _ = t;
                // stray reply with a random nonce, a replayed old reply, or a reply from a stranger
                let (kind, from_addr) = match kind {
                    0 => (8u8, from),
                    1 => (9u8, from),
                    _ => (4u8, 230),
                };
                sc.ops.push(Op::Forge { tick: at, to, from: from_addr, kind, a, b: from as i32, bytes: vec![] });
            }
            for (l, kind, k) in faults {
                let (from, to) = links[idx(l, links.len())];
                sc.faults.push(if kind == 0 { Fault::Drop { from, to, k } } else { Fault::Dup { from, to, k } });
            }
            sc
        })
        .boxed()
}

/// silence of an enumerated length around the notify delay and the timeout
pub fn silence_case(i: u64, seed: u64) -> Scenario {
    // (the last one has a notify delay above the builder's default timeout of 2 s)
    let cfgs: [(u32, u32); 5] = [(500, 2000), (100, 300), (300, 1000), (800, 3000), (3000, 6000)];
    let (notify, timeout) = cfgs[(i % 5) as usize];
    let mut k = i / 5;
    let around_timeout = k % 2 == 1;
    k /= 2;
    let step = (k % 21) as i64 - 10; // -100..=100 ms in 10 ms steps
    k /= 21;
    let both = k % 2 == 0;
    k /= 2;
    let spec = k % 2 == 1;
    k /= 2;
    let fps = [60u16, 100, 30][(k % 3) as usize];
    let mut sc = Scenario::basic(mix(seed, i), 2);
    sc.notify_ms = notify;
    sc.timeout_ms = timeout;
    sc.fps = fps;
    sc.sched = 0;
    sc.max_pred = [8u8, 0, 2][(k % 3) as usize];
    sc.ticks = 100 + ((timeout as u64 + 400) * fps as u64 / 1000) as u32 + 60;
    sc.settle = (timeout * fps as u32 / 1000) + 60;
    let len = (if around_timeout { timeout as i64 } else { notify as i64 } + step * 10).max(10) as u32;
    sc.ops.push(Op::Outage { tick: 90, from: 1, to: 2, len_ms: len });
    if both {
        sc.ops.push(Op::Outage { tick: 90, from: 2, to: 1, len_ms: len });
    }
    if spec {
        sc.specs.push(SpecSpec { host: 0, max_behind: 10, catchup: 1, slow: 0, window: sc.max_pred });
        sc.ops.push(Op::Outage { tick: 90, from: 1, to: 101, len_ms: len });
    }
    k /= 3;
    if k % 2 == 1 {
        // while the real peer is silent, another session (e.g. the restarted peer) keeps knocking from
        // its address: foreign-magic handshake and data packets must not count as a sign of life
        let per_tick = (1000 / fps as u32).max(1);
        let span = len / per_tick + 4;
        for j in 0..8u32 {
            let tick = 92 + j * span / 8;
            let kind = [10u8, 11, 7, 5][(j % 4) as usize];
            sc.ops.push(Op::Forge { tick, to: 1, from: 2, kind, a: 3 + j as i32, b: j as i32, bytes: vec![] });
            sc.ops.push(Op::Forge { tick, to: 2, from: 1, kind, a: 5 + j as i32, b: j as i32, bytes: vec![] });
        }
    }
    sc
}
const NSILENCE: u64 = 5 * 2 * 21 * 2 * 2 * 3 * 2;

pub fn poll_only_case(i: u64, seed: u64) -> Scenario {
    let mut sc = Scenario::basic(mix(seed, i ^ 0x9011), 2);
    sc.poll_only = true;
    let cadence = [100u16, 50, 20, 10][(i % 4) as usize]; // ms between polls
    sc.fps = 1000 / cadence;
    sc.sched = 0;
    let lat = [0u16, 20, 50, 100][((i / 4) % 4) as usize];
    let jitter = [0u16, 0, 30][((i / 16) % 3) as usize];
    sc.link = LinkProfile { loss: 0, dup: 0, lat_min: lat.saturating_sub(jitter.min(lat)), lat_max: lat };
    sc.ticks = (30_000 / cadence as u32).max(10);
    sc.settle = 0;
    if (i / 48) % 2 == 1 {
        sc.specs.push(SpecSpec { host: 0, max_behind: 10, catchup: 1, slow: 0, window: 8 });
    }
    sc
}

pub fn nodrain_case(i: u64, seed: u64) -> Scenario {
    let mut sc = Scenario::basic(mix(seed, i ^ 0xd7a1), 2 + (i % 2) as usize);
    sc.drain = false;
    sc.desync = 1 + (i % 3) as u8;
    sc.ticks = 700;
    sc.settle = 60;
    sc.sched = 1;
    // one peer corrupts its state so DesyncDetected events are produced every interval
    if (i / 2) % 2 == 0 {
        sc.ops.push(Op::Corrupt { peer: 0, frame: 5 });
    }
    // one peer runs ahead so WaitRecommendation events are produced
    sc.ops.push(Op::Pause { tick: 80, node: 1, ticks: 6 });
    sc.max_pred = 12;
    sc.link = LinkProfile { loss: [0u8, 10][(i % 2) as usize], dup: 0, lat_min: 20, lat_max: 30 };
    // interruptions: repeated short outages
    sc.notify_ms = 100;
    sc.timeout_ms = 5000;
    for j in 0..40u32 {
        sc.ops.push(Op::Outage { tick: 100 + j * 14, from: 1, to: 2, len_ms: 130 });
        sc.ops.push(Op::Outage { tick: 100 + j * 14, from: 2, to: 1, len_ms: 130 });
    }
    sc
}

/// never drained, and the queue is already full (100 interruption notices of a flapping link between two peers that
/// have completed their handshake) when a third peer - or a spectator - that was not reachable until then starts
/// its handshake: its progress events must not push the queue over the bound either
pub fn nodrain_late_case(i: u64, seed: u64) -> Scenario {
    let spectator = i % 3 == 2;
    let mut sc = Scenario::basic(mix(seed, i ^ 0xd7a2), if spectator { 2 } else { 3 });
    if spectator {
        sc.specs.push(SpecSpec { host: (i / 3 % 2) as u8, max_behind: 10, catchup: 2, slow: 0, window: 8 });
    }
    sc.drain = false;
    sc.sched = (i % 2) as u8;
    sc.max_pred = 8;
    sc.link = LinkProfile { loss: 0, dup: 0, lat_min: 5, lat_max: 10 + (i % 4) as u16 * 10 };
    sc.notify_ms = 100;
    sc.timeout_ms = 20000;
    let cycles = 52 + (i % 5) as u32 * 3;
    for j in 0..cycles {
        sc.ops.push(Op::Outage { tick: 60 + j * 14, from: 1, to: 2, len_ms: 130 });
        sc.ops.push(Op::Outage { tick: 60 + j * 14, from: 2, to: 1, len_ms: 130 });
    }
    let wake = 60 + cycles * 14 + 10 + (i % 7) as u32;
    // the late node cannot be reached until `wake`: every packet from and to it is lost
    let late: u8 = if spectator { 101 } else { 3 };
    let others: Vec<u8> = if spectator { vec![sc.specs[0].host + 1] } else { vec![1, 2] };
    for o in others {
        sc.ops.push(Op::Outage { tick: 0, from: late, to: o, len_ms: wake * 16 });
        sc.ops.push(Op::Outage { tick: 0, from: o, to: late, len_ms: wake * 16 });
    }
    sc.ops.sort_by_key(|o| o.tick());
    sc.ticks = wake + 150;
    sc.settle = 60;
    sc
}

/// a peer's process is restarted on the same address while the handshake is still going on (once or twice):
/// the other side has matched 0..4 replies of the old process by then
pub fn restart_case(i: u64, seed: u64) -> Scenario {
    let mut k = i;
    let t = 1 + (k % 40) as u32;
    k /= 40;
    let lat = [0u16, 20, 60, 110][(k % 4) as usize];
    k /= 4;
    let who = (k % 2) as u8;
    k /= 2;
    let twice = k % 2 == 1;
    k /= 2;
    let cfg = (k % 3) as usize;
    let mut sc = Scenario::basic(mix(seed ^ 0x2e57, i), 2);
    let (n, to) = [(500u32, 2000u32), (200, 600), (300, 1000)][cfg];
    sc.notify_ms = n;
    sc.timeout_ms = to;
    sc.sched = 0;
    sc.max_pred = [8u8, 0, 2][(i % 3) as usize];
    sc.link = LinkProfile { loss: 0, dup: 0, lat_min: lat, lat_max: lat };
    sc.ops.push(Op::Restart { tick: t, peer: who });
    if twice {
        sc.ops.push(Op::Restart { tick: t + 3 + (i % 11) as u32, peer: who });
    }
    if (i / 7) % 4 == 0 {
        sc.specs.push(SpecSpec { host: who, max_behind: 10, catchup: 1, slow: 0, window: sc.max_pred });
    }
    sc.ticks = 260;
    sc.settle = 160;
    sc
}
const NRESTART: u64 = 40 * 4 * 2 * 2 * 3;

pub fn eval_restart(sc: &Scenario) -> CaseResult {
    let mut r = eval(sc);
    let out = run(sc, &RunOpts::default());
    if r.violation.is_none() {
        let (pp, sp) = progress_in_tail(&out, 60);
        if pp.iter().any(|d| *d < 3) || sp.iter().any(|d| *d < 3) {
            r.violation = Some(("C12.restart_not_running".into(), format!("after a restart during the handshake (links loss-free) the sessions advanced only {pp:?} / spectators {sp:?} frames in the last 60 ticks")));
        }
    }
    r.nontrivial = out.peers.iter().any(|p| p.restarts > 0);
    if out.peers.iter().any(|p| p.restarts > 1) {
        r.classes.push("restarted_twice");
    }
    r
}

/// A spectator whose acknowledgements (and everything else it sends) are lost for about 128 frames while the
/// timeout is long: the host first reports NetworkInterrupted, then drops the spectator because more than 128
/// inputs are unacknowledged - and the spectator's packets come through again within a tick or two of that.
pub fn cap_case(i: u64, seed: u64) -> Scenario {
    let mut k = i;
    let end = 118 + (k % 24) as u32; // outage length in ticks
    k /= 24;
    let lat = [0u16, 20, 45][(k % 3) as usize];
    k /= 3;
    let fps = [60u16, 100][(k % 2) as usize];
    k /= 2;
    let notify = [100u32, 400, 1500][(k % 3) as usize];
    let mut sc = Scenario::basic(mix(seed ^ 0xca9, i), 1 + (i % 2) as usize);
    if sc.peers.len() == 1 {
        sc.peers[0].locals = 2;
    }
    sc.fps = fps;
    sc.sched = 0;
    sc.notify_ms = notify;
    sc.timeout_ms = 20_000;
    sc.max_pred = [8u8, 2][(i / 3 % 2) as usize];
    sc.link = LinkProfile { loss: 0, dup: 0, lat_min: lat, lat_max: lat };
    sc.specs.push(SpecSpec { host: 0, max_behind: 10, catchup: 2, slow: 0, window: sc.max_pred });
    let per = (1000 / fps as u32).max(1);
    sc.ops.push(Op::Outage { tick: 60, from: spec_addr(0), to: peer_addr(0), len_ms: end * per });
    sc.ticks = 60 + end + 120;
    sc.settle = 60;
    sc
}
const NCAP: u64 = 24 * 3 * 2 * 3;

pub fn run_prop(ctx: &Ctx) -> PropReport {
    let mut rep = PropReport::new("C12", "exploration");
    let seed = ctx.seed;
    rep.part(|| run_random(ctx, "handshake",
        "2-3 peers (+spectators), loss up to 60% / duplication up to 50% / reordering during the handshake, explicit Drop/Dup faults on the first 14 packets of random links, forged stray sync replies (random nonce, replayed old reply, reply from a stranger) at random early ticks; oracle: per-address event grammar, at every Synchronizing{count}/Synchronized the ledger shows >= count / >= 5 DISTINCT own nonces whose reply was delivered, Running iff every endpoint synchronized, NotSynchronized before; non-trivial = a handshake packet was lost/duplicated or a stray reply was injected",
        gen_handshake, ctx.tier.pick(6000, 30000), eval_handshake));
    let reps = ctx.tier.pick(2u64, 6u64);
    rep.part(|| run_enum(ctx, "silence",
        "enumeration: timeouts {500/2000 (default), 100/300, 300/1000, 800/3000, 3000/6000} (the two builder setters called in either order) x silence length = notify or timeout +- 100 ms in 10 ms steps x one/both directions x spectator x poll cadence {16,10,33 ms} x window {8,0,2} x with/without another session's packets (foreign magic) arriving from the silent peer's address during the silence; oracle: the exact Interrupted/Resumed/Disconnected sequence and instants predicted from poll instants and deliveries, grammar; non-trivial = an interruption occurred",
        NSILENCE * reps, move |i| silence_case(i % NSILENCE, mix(seed, i / NSILENCE)), eval_silence, true));
    rep.part(|| run_enum(ctx, "poll_only",
        "two sessions (optionally a spectator) with default timeouts on a loss-free link with latency 0-100 ms that merely call poll_remote_clients() every 10/20/50/100 ms for 30 s: no NetworkInterrupted/Disconnected may be reported",
        96, move |i| poll_only_case(i, seed), eval, true));
    rep.part(|| run_enum(ctx, "never_drained",
        "2-3 peers whose user never drains events while interruptions (40 short outages with notify 100 ms), desync reports (interval 1-3, one peer corrupted) and wait recommendations are produced: events().len() <= 100 after every call",
        ctx.tier.pick(24, 96), move |i| nodrain_case(i, seed), eval, false));
    rep.part(|| run_enum(ctx, "never_drained_late_joiner",
        "3 peers (or 2 peers and a spectator) whose user never drains events: two peers complete their handshake and fill the queue with the notices of 52-64 short outages between them (notify 100 ms) while the third node is not running yet; it then starts and its handshake progress is reported: events().len() <= 100 after every call; non-trivial = the late node's Synchronized was reported to a session whose queue had reached 100",
        ctx.tier.pick(90, 360), move |i| nodrain_late_case(i, seed), |sc| { let mut r = eval(sc); r.nontrivial = r.counters.iter().any(|c| c.0 == "max_undrained_events" && c.1 >= 100); r }, false));
    rep.part(|| run_enum(ctx, "restart_during_handshake",
        "enumeration: one of two peers (sometimes hosting a spectator) is restarted on the same address - a new session object with a new magic number - at tick 1..=40 of the handshake (and possibly a second time 3-13 ticks later) x latency {0,20,60,110 ms} x three timeout settings x window {8,0,2}, loss-free; the restart is only carried out while no other node has reported that address Synchronized; oracle: grammar, nonce ledger, Running iff all synchronized, exact timing prediction (no NetworkInterrupted / Disconnected on a healthy link), and everybody advances at the end; non-trivial = a restart was carried out",
        NRESTART, move |i| restart_case(i, seed), eval_restart, true));
    rep.part(|| run_enum(ctx, "cap_then_packets",
        "enumeration: a host (all-local or with one remote peer) and a spectator whose outgoing packets are lost for 118..=141 ticks with a 20 s timeout and notify delays {100, 400, 1500 ms} x latency {0,20,45 ms} x fps {60,100}: the host reports NetworkInterrupted, then disconnects the spectator when more than 128 inputs are unacknowledged, and the spectator's packets arrive again within a few ticks of that moment; oracle: per-address grammar (nothing after Disconnected), queue bound; non-trivial = the spectator was disconnected",
        NCAP, move |i| cap_case(i, seed), |sc| { let mut r = eval(sc); r.nontrivial = r.classes.contains(&"timeout_disconnect"); r }, true));
    rep.part(|| run_enum(ctx, "late_joiner",
        "C07's death_before_start scenarios: a two-peer session waits for a spectator that cannot be reached yet; the remote player completes its handshake, dies and its endpoint is shut down 5 s later; the spectator completes its handshake 0.3 / 4 / 5.6 / 7 s after the drop: grammar, exact event timing, and the session is Running exactly when every address has produced Synchronized",
        // (only the timeout variants: events after an explicit disconnect_player are C07's business)
        super::c07::NBASE * 4, move |i| super::c07::prestart_case((i % super::c07::NBASE) + super::c07::NBASE * 2 * (i / super::c07::NBASE), seed), |sc| { let mut r = eval(sc); r.nontrivial = r.classes.contains(&"timeout_disconnect") || sc.ops.iter().any(|o| matches!(o, Op::Disconnect { .. })); r }, false));
    rep.floors.push(("handshake".into(), 0.3));
    rep.assumptions = vec!["event instants are poll instants; the timing predictor is exact at poll granularity and is applied to sessions with <= 2 peers (endpoints in larger sessions can be disconnected through gossip, which is C10's space)".into()];
    rep
}
