//! C13 - SyncTestSession flags exactly the games that are not deterministic.
//! Also provides the SyncTest part of C02.
use crate::engine::*;
use crate::sim::game::*;
use crate::sim::types::*;
use crate::sim::world::{normalise, take_panic};
use ggrs::*;
use serde::{Deserialize, Serialize};
use std::panic::{catch_unwind, AssertUnwindSafe};

#[derive(Clone, Debug, Serialize, Deserialize, PartialEq, Eq, Hash)]
pub struct StCase {
    pub players: u8,
    pub window: u8,
    pub cd: u8,
    pub delay: u8,
    pub sparse: bool,
    pub frames: u16,
    pub seed: u64,
    /// (frame F, pattern): 0 every simulation of F differs, 1 only the 2nd, 2 from the 3rd on, 3 only the 1st
    pub pert: Option<(i32, u8)>,
    /// the game keeps its snapshots itself: cell.save(frame, None, Some(checksum))
    #[serde(default)]
    pub own_snapshots: bool,
    /// every input is registered twice per tick, first a decoy and then the real value (documented: the
    /// older one is overwritten)
    #[serde(default)]
    pub double_submit: bool,
    /// every few frames advance_frame() is first called with the input of the last player missing (decoy
    /// values registered for the others): it must fail with InvalidRequest and change nothing - the inputs
    /// registered afterwards are the ones that count
    #[serde(default)]
    pub retry_misuse: bool,
}

pub struct StOut {
    pub rejected: bool,
    pub errors: Vec<(String, String)>,
    pub mismatch: Option<(i32, Vec<i32>)>,
    /// distinct results observed for the perturbed frame, by simulation index
    pub pert_results: Vec<u64>,
    pub loads: u64,
    pub frames_done: i32,
}

type TC = Cfg<I1, PredictRepeatLast>;

pub fn expected_valid(c: &StCase) -> bool {
    // documented: check_distance must be < max_prediction_window; sparse saving unsupported
    c.players >= 1 && c.cd < c.window && !c.sparse
}

pub fn run_case(c: &StCase) -> StOut {
    let mut out = StOut { rejected: false, errors: vec![], mismatch: None, pert_results: vec![], loads: 0, frames_done: 0 };
    let built = catch_unwind(AssertUnwindSafe(|| {
        SessionBuilder::<TC>::new()
            .with_num_players(c.players as usize)
            .map(|b| {
                b.with_max_prediction_window(c.window as usize)
                    .with_check_distance(c.cd as usize)
                    .with_input_delay(c.delay as usize)
                    .with_sparse_saving_mode(c.sparse)
            })
            .and_then(|b| b.start_synctest_session())
    }));
    let mut sess = match built {
        Err(_) => {
            out.errors.push((format!("panic|{}", normalise(&take_panic())), "builder panicked".into()));
            return out;
        }
        Ok(Err(GgrsError::InvalidRequest { .. })) => {
            out.rejected = true;
            return out;
        }
        Ok(Err(e)) => {
            out.errors.push(("C13.builder_error_kind".into(), format!("builder returned {e:?}")));
            return out;
        }
        Ok(Ok(s)) => s,
    };
    let np = c.players as usize;
    let mut game = Game::new(np, c.window as usize, false);
    game.expect_save0 = c.cd > 0;
    game.own_snapshots = c.own_snapshots;
    if let Some((pf, pat)) = c.pert {
        game.perturb = Some(Box::new(move |f, idx| {
            if f != pf {
                return 0;
            }
            let hit = match pat {
                0 => true,
                1 => idx == 1,
                2 => idx >= 2,
                _ => idx == 0,
            };
            if hit {
                mix(0x7e57, idx as u64 + 1) | 1
            } else {
                0
            }
        }));
    }
    let mut results_by_idx: Vec<u64> = Vec::new();
    for _ in 0..c.frames {
        let before = sess.current_frame();
        if c.retry_misuse && np >= 2 && before % 7 == 3 {
            for h in 0..np - 1 {
                let v = true_input(c.seed, h, before, 4);
                let _ = sess.add_local_input(h, I1::from_v((v + 2) % 4));
            }
            match catch_unwind(AssertUnwindSafe(|| sess.advance_frame())) {
                Ok(Err(GgrsError::InvalidRequest { .. })) if sess.current_frame() == before => {}
                // a pending mismatch is reported first, also by this call
                Ok(Err(GgrsError::MismatchedChecksum { current_frame, mismatched_frames })) => {
                    out.mismatch = Some((current_frame, mismatched_frames));
                    break;
                }
                Ok(other) => out.errors.push(("C16.synctest_missing_input".into(), format!("advance_frame() with the input of player {} missing at frame {before}: returned {:?}, current_frame() {} (expected InvalidRequest and no change)", np - 1, other.map(|v| v.len()), sess.current_frame()))),
                Err(_) => {
                    out.errors.push((format!("panic|{}", normalise(&take_panic())), format!("advance_frame with a missing input panicked at frame {before}")));
                    return out;
                }
            }
        }
        for h in 0..np {
            let v = true_input(c.seed, h, before, 4);
            if c.double_submit {
                let _ = sess.add_local_input(h, I1::from_v((v + 1 + (before as u32 % 3)) % 4));
            }
            if let Err(e) = sess.add_local_input(h, I1::from_v(v)) {
                out.errors.push(("C13.add_local_input".into(), format!("add_local_input({h}) -> {e:?}")));
            }
        }
        let res = catch_unwind(AssertUnwindSafe(|| sess.advance_frame()));
        let res = match res {
            Ok(r) => r,
            Err(_) => {
                out.errors.push((format!("panic|{}", normalise(&take_panic())), format!("advance_frame panicked at frame {before}")));
                return out;
            }
        };
        match res {
            Ok(reqs) => {
                let advs = game.handle(reqs, |i: I1| i.to_v());
                for a in &advs {
                    if let Some((pf, _)) = c.pert {
                        if a.frame == pf {
                            results_by_idx.push(game.after[pf as usize]);
                        }
                    }
                    for h in 0..np.min(a.inputs.len()) {
                        let (v, st) = a.inputs[h];
                        let uf = a.frame - c.delay as i32;
                        let exp = if uf < 0 { 0 } else { true_input(c.seed, h, uf, 4) };
                        if st != ST_CONF || v != exp {
                            out.errors.push(("C13.input".into(), format!("frame {} player {}: got value {} status {}, expected Confirmed {}", a.frame, h, v, st, exp)));
                        }
                    }
                }
                let cur = sess.current_frame();
                if game.st.frame != cur {
                    out.errors.push(("C02.frame_eq".into(), format!("game at frame {} but current_frame() is {}", game.st.frame, cur)));
                    game.st.frame = cur;
                }
                if cur - before != 1 {
                    out.errors.push(("C02.delta".into(), format!("current_frame() moved by {} in one synctest call", cur - before)));
                }
            }
            Err(GgrsError::MismatchedChecksum { current_frame, mismatched_frames }) => {
                out.mismatch = Some((current_frame, mismatched_frames));
                break;
            }
            Err(e) => {
                out.errors.push(("C13.unexpected_error".into(), format!("advance_frame -> {e:?}")));
                break;
            }
        }
        if !game.errors.is_empty() || out.errors.len() > 5 {
            break;
        }
    }
    for (cl, m) in game.errors.drain(..) {
        out.errors.push((cl.to_string(), m));
    }
    out.loads = game.stats.loads_verified;
    out.frames_done = sess.current_frame();
    results_by_idx.dedup();
    out.pert_results = results_by_idx;
    out
}

pub fn eval(c: &StCase) -> CaseResult {
    let o = run_case(c);
    let mut r = CaseResult::default();
    let valid = expected_valid(c);
    r.summary = format!("valid={} rejected={} frames_done={} mismatch={:?} loads_verified={}", valid, o.rejected, o.frames_done, o.mismatch, o.loads);
    if valid {
        r.classes.push("valid_config");
    } else {
        r.classes.push("invalid_config");
    }
    if let Some((sig, msg)) = o.errors.first() {
        r.violation = Some((sig.clone(), msg.clone()));
        return r;
    }
    if o.rejected != !valid {
        r.violation = Some((
            if o.rejected { "C13.valid_config_rejected".into() } else { "C13.invalid_config_accepted".into() },
            format!("players={} window={} check_distance={} sparse={}: builder {} it", c.players, c.window, c.cd, c.sparse, if o.rejected { "rejected" } else { "accepted" }),
        ));
        return r;
    }
    if !valid {
        r.nontrivial = true;
        return r;
    }
    match c.pert {
        None => {
            r.classes.push("deterministic_game");
            if let Some((cf, frames)) = &o.mismatch {
                r.violation = Some(("C13.false_alarm".into(), format!("deterministic game flagged: MismatchedChecksum at frame {cf}, frames {frames:?}")));
            }
            r.nontrivial = o.loads > 0 || c.cd == 0;
            if c.cd >= 2 {
                r.classes.push("checks_active");
            }
        }
        Some((pf, pat)) => {
            r.classes.push(match pat {
                0 => "perturb_every_simulation",
                1 => "perturb_only_2nd",
                2 => "perturb_from_3rd",
                _ => "perturb_only_1st",
            });
            let differed = o.pert_results.len() >= 2;
            if differed {
                r.classes.push("states_really_differed");
            }
            r.nontrivial = differed && c.cd >= 2;
            if differed && c.cd >= 2 {
                match &o.mismatch {
                    None => {
                        r.violation = Some((format!("C13.missed|pattern{pat}"), format!("frame {pf} produced different states in different simulations (pattern {pat}, check_distance {}) but no MismatchedChecksum was reported within {} frames", c.cd, c.frames)));
                    }
                    Some((cf, frames)) => {
                        if *cf > pf + c.cd as i32 + 2 {
                            r.violation = Some((format!("C13.late|pattern{pat}"), format!("divergence at frame {pf} reported only at frame {cf} (> F+check_distance+2)")));
                        } else if frames.iter().min() != Some(&(pf + 1)) {
                            r.violation = Some((format!("C13.wrong_frame|pattern{pat}"), format!("divergence at frame {pf}: first affected saved state is frame {} but the error names {frames:?}", pf + 1)));
                        }
                    }
                }
            } else if !differed {
                if let Some((cf, frames)) = &o.mismatch {
                    r.violation = Some(("C13.false_alarm".into(), format!("no two simulations of a frame differed but MismatchedChecksum at {cf} {frames:?}")));
                }
            }
        }
    }
    r
}

pub fn det_case(i: u64, seed: u64, frames: u16) -> StCase {
    // players 1..=4 x window 1..=10 x cd 0..=11 x delay {0,1,3,7} x sparse
    let mut k = i;
    let players = 1 + (k % 4) as u8;
    k /= 4;
    let window = 1 + (k % 10) as u8;
    k /= 10;
    let cd = (k % 12) as u8;
    k /= 12;
    let delay = [0u8, 1, 3, 7][(k % 4) as usize];
    k /= 4;
    let sparse = k % 2 == 1;
    k /= 2;
    StCase { players, window, cd, delay, sparse, frames, seed: mix(seed, k), pert: None, own_snapshots: seed % 2 == 1, double_submit: (seed >> 1) % 2 == 1, retry_misuse: (seed >> 2) % 2 == 1 }
}
pub const DET_CONFIGS: u64 = 4 * 10 * 12 * 4 * 2;

fn detect_cases(max_f: i32) -> Vec<StCase> {
    let mut v = Vec::new();
    for players in 1..=2u8 {
        for window in 3..=10u8 {
            for cd in 2..window {
                for delay in [0u8, 3] {
                    for f in 0..=max_f {
                        for pat in 0..4u8 {
                            for own_snapshots in [false, true] {
                                v.push(StCase { players, window, cd, delay, sparse: false, frames: (f + cd as i32 + 12) as u16, seed: 7, pert: Some((f, pat)), own_snapshots, double_submit: (f + pat as i32) % 3 == 0, retry_misuse: (f + pat as i32) % 4 == 1 });
                            }
                        }
                    }
                }
            }
        }
    }
    v
}

pub fn run(ctx: &Ctx) -> PropReport {
    let mut rep = PropReport::new("C13", "exploration");
    let seeds = ctx.tier.pick(3u64, 10u64);
    let seed = ctx.seed;
    rep.part(|| run_enum(
        ctx,
        "deterministic",
        "bounded-exhaustive: players 1..=4 x window 1..=10 x check distance 0..=11 x delay {0,1,3,7} x sparse on/off (invalid combinations must be rejected with InvalidRequest, valid ones run 120 frames of generated inputs with a deterministic game): never MismatchedChecksum, request lists pass the C02 executor, all inputs Confirmed and equal to the input submitted delay frames earlier (default before); non-trivial = an invalid config (rejection checked) or a valid run with >=1 verified Load (or check distance 0)",
        DET_CONFIGS * seeds,
        move |i| det_case(i % DET_CONFIGS, mix(seed, i / DET_CONFIGS), 120),
        eval,
        true,
    ));
    let cases = detect_cases(ctx.tier.pick(40, 100));
    let n = cases.len() as u64;
    rep.part(|| run_enum(
        ctx,
        "detect",
        "bounded-exhaustive: players 1..=2 x window 3..=10 x check distance 2..window x delay {0,3} x perturbed frame F x pattern {every simulation differs, only the 2nd, from the 3rd on, only the 1st} x {state stored in the cell, game keeps its own snapshots and saves only a checksum}: if two simulations of F were observed to produce different states then MismatchedChecksum must be reported at a call with current_frame <= F+cd+2 and min(mismatched_frames) == F+1; if none differed, no error; non-trivial = states really differed",
        n,
        move |i| cases[i as usize].clone(),
        eval,
        true,
    ));
    let big: Vec<StCase> = {
        let mut v = Vec::new();
        for (window, delay) in [(64u8, 0u8), (100, 0), (127, 0), (200, 0), (255, 0), (64, 63), (100, 30), (40, 90), (30, 100)] {
            for cd in [0u8, 2, 9] {
                for players in [1u8, 3] {
                    v.push(StCase { players, window, cd, delay, sparse: false, frames: 300, seed: mix(seed, window as u64 * 131 + delay as u64), pert: None, own_snapshots: cd == 9, double_submit: false, retry_misuse: players == 3 });
                }
            }
        }
        v
    };
    let nb = big.len() as u64;
    rep.part(|| run_enum(
        ctx,
        "large_windows",
        "valid configurations with large prediction windows and long input delays (window 30..=255, delay 0..=100 - check distance + delay stays below the 128-slot input ring -, check distance 0/2/9, 1 and 3 players), 300 frames each - more than twice the 128-slot input ring: same oracle as 'deterministic'",
        nb,
        move |i| big[i as usize].clone(),
        eval,
        true,
    ));
    rep.assumptions = vec!["the harness game's save/load/advance are deterministic except for the injected, index-dependent perturbation".into()];
    rep
}

/// C02 part: SyncTest request lists obey the request contract
pub fn c02_part(ctx: &Ctx) -> PartReport {
    let seed = ctx.seed;
    let n = ctx.tier.pick(1500u64, 6000u64);
    run_enum(
        ctx,
        "synctest",
        "SyncTestSession over seeded configurations (players 1..=4, window 1..=10, check distance < window, delay {0,1,3,7}), 150 frames each, executed by the strict game: Save names the game frame, Load is an earlier frame within the window whose cell holds what was last saved, Advance contiguous, game frame == current_frame() after each call; non-trivial = >=1 verified Load",
        n,
        move |i| {
            let r = mix(seed ^ 0xc02, i);
            let window = 1 + (r % 10) as u8;
            let cd = ((r >> 8) % window as u64) as u8;
            StCase { players: 1 + ((r >> 16) % 4) as u8, window, cd, delay: [0u8, 1, 3, 7][((r >> 24) % 4) as usize], sparse: false, frames: 150, seed: r, pert: None, own_snapshots: (r >> 32) % 3 == 0, double_submit: (r >> 36) % 2 == 0, retry_misuse: (r >> 40) % 2 == 0 }
        },
        |c| {
            let mut r = eval(c);
            if let Some((sig, _)) = &r.violation {
                if !(sig.starts_with("C02") || sig.starts_with("C04") || sig.starts_with("panic")) {
                    r.violation = None; // judged by C13
                }
            }
            r.nontrivial = r.summary.contains("loads_verified=") && !r.summary.ends_with("loads_verified=0");
            r
        },
        false,
    )
}

pub fn replay(_part: &str, case: &serde_json::Value) -> Option<CaseResult> {
    let c: StCase = serde_json::from_value(case.clone()).ok()?;
    Some(eval(&c))
}
