//! C07 - a peer drop is detected on time and the survivor's timeline stays coherent.
use super::common::*;
use super::posthoc::*;
use crate::engine::*;
use crate::sim::net::LinkProfile;
use crate::sim::scenario::*;
use crate::sim::types::*;
use crate::sim::world::*;

pub const PROPS: &[&str] = &["C07", "C12"];

pub fn eval(sc: &Scenario) -> CaseResult {
    let out = run(sc, &RunOpts::default());
    let mut r = CaseResult::default();
    r.classes = base_classes(sc, &out);
    r.counters = base_counters(&out);
    r.summary = summary(sc, &out);
    r.violation = first_violation(&out, &["C07", "C01", "C02", "C03", "C04"]);
    let victim = sc.ops.iter().find_map(|o| if let Op::Kill { peer, .. } = o { Some(*peer as usize) } else { None });
    let api = sc.ops.iter().any(|o| matches!(o, Op::Disconnect { .. }));
    // the survivor's spectator goes silent at the same instant as the victim (both endpoints then time
    // out in the same poll), or is disconnected explicitly right after the player
    let spec_dropped = sc.ops.iter().any(|o| matches!(o, Op::LinkDown { from, .. } if *from > 100)) || sc.ops.iter().any(|o| matches!(o, Op::Disconnect { handle, .. } if *handle as usize >= sc.num_players()));
    if r.violation.is_none() {
        r.violation = event_grammar(&out);
    }
    if r.violation.is_none() {
        // timing: exact prediction from poll instants and deliveries; addresses disconnected through the API are skipped
        r.violation = event_timing(sc, &out, &|_name, addr| api || (spec_dropped && addr > 100)).map(|(s, m)| (s.replace("C12.", "C07."), m));
    }
    if r.violation.is_none() {
        r.violation = dropped_player_timeline(&out);
    }
    if r.violation.is_none() {
        r.violation = spectator_replay(sc, &out).map(|(s, m)| (format!("C07.spectator|{s}"), m));
    }
    let survivor = (0..sc.peers.len()).find(|p| Some(*p) != victim).unwrap_or(0);
    let so = &out.peers[survivor];
    if r.violation.is_none() {
        if victim.is_some() && so.running_since_ms.is_none() {
            // the remote died before the handshake completed on the survivor's side: nothing to detect
        } else if let Some(_v) = victim {
            // the survivor must have disconnected the victim's players and keep advancing on its own
            let vh: Vec<usize> = (0..out.owners.len()).filter(|h| Some(out.owners[*h]) == victim).collect();
            if !vh.iter().all(|h| so.cs[*h].0) {
                r.violation = Some(("C07.not_disconnected".into(), format!("peer{survivor}: the dead peer's players are not marked disconnected at the end: {:?}", so.cs)));
            } else {
                let (pp, sp) = progress_in_tail(&out, 60);
                if pp[survivor] < 3 {
                    r.violation = Some(("C07.survivor_stuck".into(), format!("peer{survivor} advanced only {} frames in the last 60 ticks after the drop", pp[survivor])));
                } else if !spec_dropped && sp.iter().zip(out.specs.iter()).any(|(d, s)| s.host == survivor && *d < 3 && s.too_far == 0) {
                    r.violation = Some(("C07.spectator_stuck".into(), format!("a spectator of the survivor advanced only {:?} frames in the last 60 ticks", sp)));
                }
            }
        }
        if api && r.violation.is_none() {
            let rh = sc.peers[0].locals;
            let calls: Vec<&(u32, u8, u8, bool)> = so.misuse_results.iter().filter(|m| m.1 == 50 && m.2 == rh).collect();
            if calls.len() >= 2 && !(calls[0].3 && !calls[1].3) {
                r.violation = Some(("C07.disconnect_api".into(), format!("disconnect_player results {:?}: expected Ok then Err(InvalidRequest)", calls)));
            }
            if so.events.iter().any(|e| matches!(e.1, Ev::Interrupted { .. } | Ev::Disconnected { .. })) && false {
                // events after an API disconnect are covered by the grammar
            }
        }
    }
    // non-trivial: a frame beyond the cut-off had been simulated before (resimulated with Disconnected)
    let mut resim_after_cut = false;
    for (h, (disc, last)) in so.cs.iter().enumerate() {
        let _ = h;
        if *disc {
            for f in ((*last + 1).max(0) as usize)..so.sim_count.len() {
                if so.sim_count[f] >= 2 {
                    resim_after_cut = true;
                }
            }
        }
    }
    let disc = so.cs.iter().any(|c| c.0);
    r.nontrivial = disc && (resim_after_cut || sc.max_pred == 0);
    if resim_after_cut {
        r.classes.push("predicted_frames_resimulated_as_disconnected");
    }
    if api {
        r.classes.push("explicit_disconnect_player");
    }
    if spec_dropped {
        r.classes.push("spectator_dropped_together_with_player");
    }
    if victim.is_some() {
        r.classes.push("peer_death");
    }
    r
}

const TIMEOUTS: [(u32, u32); 4] = [(100, 300), (300, 1000), (500, 2000), (800, 3000)];

/// base configuration number `c` (0..288)
pub fn base(c: u64, seed: u64) -> Scenario {
    let mut k = c;
    let window = [0u8, 1, 2, 8][(k % 4) as usize];
    k /= 4;
    let delay = [0u8, 2][(k % 2) as usize];
    k /= 2;
    let locals = [(1u8, 1u8), (2, 1), (1, 2)][(k % 3) as usize];
    k /= 3;
    let sparse = k % 2 == 1;
    k /= 2;
    let spec = k % 2 == 1;
    k /= 2;
    let lat = [0u16, 20, 60][(k % 3) as usize];
    let mut sc = Scenario::basic(mix(seed, c), 2);
    sc.peers[0].locals = locals.0;
    sc.peers[1].locals = locals.1;
    sc.peers[0].delay = delay;
    sc.peers[1].delay = delay;
    sc.max_pred = window;
    sc.sparse = sparse && window > 0;
    sc.link = LinkProfile { loss: 0, dup: 0, lat_min: lat, lat_max: lat };
    let (n, t) = TIMEOUTS[(mix(seed ^ 0x71, c) % 4) as usize];
    sc.notify_ms = n;
    sc.timeout_ms = t;
    if spec {
        sc.specs.push(SpecSpec { host: 0, max_behind: 10, catchup: 2, slow: 0, window });
    }
    sc.predictor = (c % 2) as u8;
    sc.sched = 0;
    sc
}
pub const NBASE: u64 = 4 * 2 * 3 * 2 * 2 * 3;

pub fn death_case(i: u64, seed: u64, stride: u64, offsets: &[u32]) -> Scenario {
    let per = (120 / stride) * offsets.len() as u64;
    let c = i / per;
    let rem = i % per;
    let kt = 100 + (rem / offsets.len() as u64) * stride;
    let off = offsets[(rem % offsets.len() as u64) as usize];
    let mut sc = base(c % NBASE, seed);
    sc.ticks = kt as u32 + 1;
    // settle: long enough for the timeout to fire plus two seconds of solo play
    sc.settle = (sc.timeout_ms / 16) + 140;
    if off > 0 {
        // the last packets of the dying peer never arrive
        sc.ops.push(Op::LinkDown { tick: kt as u32 - off, from: peer_addr(1), to: peer_addr(0) });
    }
    sc.ops.push(Op::Kill { tick: kt as u32, peer: 1 });
    if c % 3 == 1 {
        // the dead peer's application is restarted on the same address and keeps knocking (another session's
        // handshake packets, foreign magic, every ~200 ms): that is not a sign of life of the old session
        let mut t = kt as u32 + 3;
        let end = kt as u32 + sc.settle;
        let mut j = 0;
        while t < end {
            sc.ops.push(Op::Forge { tick: t, to: peer_addr(0), from: peer_addr(1), kind: [10u8, 10, 11, 7][j % 4], a: 3 + (j as i32 % 5), b: j as i32, bytes: vec![] });
            t += 12;
            j += 1;
        }
    }
    if !sc.specs.is_empty() && (kt / stride.max(1)) % 2 == 1 {
        // the survivor's spectator falls silent at the same instant: both endpoints time out together
        sc.ops.push(Op::LinkDown { tick: kt as u32, from: spec_addr(0), to: peer_addr(0) });
    }
    sc
}

pub fn api_case(i: u64, seed: u64) -> Scenario {
    let c = i % NBASE;
    let mut sc = base(c, seed ^ 0xa91);
    let t1 = 60 + (mix(seed, i) % 200) as u32;
    sc.ticks = t1 + 120;
    sc.settle = 60;
    let handle = sc.peers[0].locals; // first remote handle as seen from peer 0
    if (i / NBASE) % 2 == 1 {
        // the game polls first (the remote's newest packets, possibly contradicting a prediction, are taken in) and
        // drops the player before its next advance_frame(): a misprediction and the drop are pending together
        sc.ops.push(Op::Misuse { tick: t1, peer: 0, kind: 98, arg: handle });
    } else {
        sc.ops.push(Op::Disconnect { tick: t1, peer: 0, handle });
    }
    if !sc.specs.is_empty() && i % 2 == 1 {
        // ... and the spectator right after it, before the next advance_frame()
        let sh = sc.num_players() as u8;
        sc.ops.push(Op::Disconnect { tick: t1, peer: 0, handle: sh });
    }
    sc.ops.push(Op::Disconnect { tick: t1 + 30, peer: 0, handle });
    // the other side stops too (it would otherwise time out peer 0, which is fine but irrelevant)
    sc.ops.push(Op::Kill { tick: t1, peer: 1 });
    sc
}

/// the tick in which the survivor (peer 0) of base config `c` becomes Running when nobody dies
fn running_tick(c: u64, seed: u64) -> u32 {
    let mut sc = base(c, seed ^ 0xea71);
    sc.ticks = 90;
    sc.settle = 0;
    let out = run(&sc, &RunOpts::default());
    match out.peers[0].running_since_ms {
        Some(ms) => (ms.saturating_sub(out.t0_ms) / 16) as u32,
        None => 90,
    }
}

/// the remote dies (or is disconnected through the API) around the moment the survivor becomes Running:
/// before any of its inputs arrived, after the first few, with the last 0..=3 ticks of its packets lost
pub fn early_case(i: u64, seed: u64, offsets: &[u32]) -> Scenario {
    let c = i % NBASE;
    let mut v = i / NBASE;
    let dk = (v % 10) as i64 - 3;
    v /= 10;
    let off = offsets[(v % offsets.len() as u64) as usize];
    v /= offsets.len() as u64;
    let api = v % 2 == 1;
    let rt = running_tick(c, seed) as i64;
    let kt = (rt + dk).max(1) as u32;
    let mut sc = base(c, seed ^ 0xea71);
    sc.ticks = kt + 1;
    sc.settle = (sc.timeout_ms / 16) + 140;
    if off > 0 {
        sc.ops.push(Op::LinkDown { tick: kt.saturating_sub(off).max(1), from: peer_addr(1), to: peer_addr(0) });
    }
    if api {
        // the survivor plays on for a few ticks without hearing from the remote, then drops it explicitly
        let t1 = kt + 1 + (mix(seed, i) % 6) as u32;
        sc.ticks = t1 + 1;
        let handle = sc.peers[0].locals;
        sc.ops.push(Op::Disconnect { tick: t1, peer: 0, handle });
        sc.ops.push(Op::Disconnect { tick: t1 + 30, peer: 0, handle });
    }
    sc.ops.push(Op::Kill { tick: kt, peer: 1 });
    sc
}

/// the tick in which peer 0 of base config `c` reports the remote player's address Synchronized while its
/// spectator cannot be reached at all
fn remote_synced_tick(c: u64, seed: u64) -> u32 {
    let mut sc = base(c, seed ^ 0x9e57);
    sc.specs.clear();
    sc.specs.push(SpecSpec { host: 0, max_behind: 10, catchup: 2, slow: 0, window: sc.max_pred });
    sc.ops.push(Op::Outage { tick: 0, from: spec_addr(0), to: peer_addr(0), len_ms: 60_000 });
    sc.ops.push(Op::Outage { tick: 0, from: peer_addr(0), to: spec_addr(0), len_ms: 60_000 });
    sc.ticks = 90;
    sc.settle = 0;
    let out = run(&sc, &RunOpts::default());
    let a = peer_addr(1);
    out.peers[0].events.iter().find_map(|e| if matches!(e.1, Ev::Synchronized { addr } if addr == a) { Some((e.0.saturating_sub(out.t0_ms) / 16) as u32) } else { None }).unwrap_or(90)
}

/// The remote player dies (or is dropped with disconnect_player) while the session is still Synchronizing because
/// its spectator cannot be reached yet; the spectator's handshake completes only after the drop AND after the
/// dropped endpoint's 5 s shutdown timer: the survivor must then start and play on alone.
pub fn prestart_case(i: u64, seed: u64) -> Scenario {
    let c = i % NBASE;
    let v = i / NBASE;
    let api = v % 2 == 1;
    let st = remote_synced_tick(c, seed);
    let mut sc = base(c, seed ^ 0x9e57);
    sc.specs.clear();
    sc.specs.push(SpecSpec { host: 0, max_behind: 10, catchup: 2, slow: 0, window: sc.max_pred });
    let kt = st + 2 + (mix(seed, i) % 10) as u32;
    let dark_ms = kt * 16 + sc.timeout_ms + [300u32, 4000, 5600, 7000][((v / 2) % 4) as usize];
    sc.ops.push(Op::Outage { tick: 0, from: spec_addr(0), to: peer_addr(0), len_ms: dark_ms });
    sc.ops.push(Op::Outage { tick: 0, from: peer_addr(0), to: spec_addr(0), len_ms: dark_ms });
    if api {
        let handle = sc.peers[0].locals;
        sc.ops.push(Op::Disconnect { tick: kt, peer: 0, handle });
    }
    sc.ops.push(Op::Kill { tick: kt, peer: 1 });
    sc.ops.sort_by_key(|o| o.tick());
    sc.ticks = dark_ms / 16 + 200;
    sc.settle = 100;
    sc
}

pub fn eval_prestart(sc: &Scenario) -> CaseResult {
    let mut r = eval(sc);
    let out = run(sc, &RunOpts::default());
    let so = &out.peers[0];
    if r.violation.is_none() {
        let vh: Vec<usize> = (0..out.owners.len()).filter(|h| out.owners[*h] == 1).collect();
        let (pp, sp) = progress_in_tail(&out, 60);
        if !so.running {
            r.violation = Some(("C07.never_started".into(), "the remote was dropped while the session was still waiting for its spectator; the spectator has synchronized since, but the session is still not Running".into()));
        } else if !vh.iter().all(|h| so.cs[*h].0) {
            r.violation = Some(("C07.not_disconnected".into(), format!("peer0: the dead peer's players are not marked disconnected at the end: {:?}", so.cs)));
        } else if pp[0] < 3 || sp.iter().any(|d| *d < 3) {
            r.violation = Some(("C07.survivor_stuck".into(), format!("after the late start the survivor advanced {} and its spectator {:?} frames in the last 60 ticks", pp[0], sp)));
        }
    }
    r.nontrivial = so.running && so.cs.iter().any(|c| c.0);
    r.classes.push("dropped_before_the_session_started");
    r
}

pub fn run_prop(ctx: &Ctx) -> PropReport {
    let mut rep = PropReport::new("C07", "fault_enumeration");
    let seed = ctx.seed;
    let (stride, offsets): (u64, Vec<u32>) = ctx.tier.pick((2, vec![0, 2]), (1, vec![0, 1, 2, 4]));
    let per = (120 / stride) * offsets.len() as u64;
    let n = NBASE * per;
    let offs = offsets.clone();
    rep.part(|| run_enum(ctx, "death",
        "fault enumeration: 288 base configs (window {0,1,2,8} x delay {0,2} x players per side {1+1,2+1,1+2} x sparse x spectator on the survivor x latency {0,20,60 ms}, timeouts from {100/300, 300/1000, 500/2000, 800/3000 ms}) x moment of death = every 2nd (quick) / every (thorough) tick of a 120-tick window x the dying peer's last 0/2 (quick) 0/1/2/4 (thorough) ticks of packets lost; in a third of the base configs another session's handshake packets (foreign magic) keep arriving from the dead peer's address; oracle: exact NetworkInterrupted / Disconnected instants predicted from the survivor's poll instants and packet deliveries (first poll after last-receive + notify resp. + timeout, once each, disconnect_timeout field = timeout - notify), survivor and its spectator keep advancing, final timeline = real inputs up to the last received frame then default/Disconnected, spectator identical; non-trivial = the drop was detected and a frame beyond the cut-off had been simulated with a prediction before (or lockstep)",
        n, move |i| death_case(i, seed, stride, &offs), eval, ctx.tier == Tier::Thorough));
    let m = ctx.tier.pick(NBASE * 2, NBASE * 10);
    rep.part(|| run_enum(ctx, "disconnect_player",
        "the same base configs with an explicit disconnect_player call at a seeded moment, in half of them right after a bare poll_remote_clients() (and a second call 30 ticks later): first call Ok with immediate effect on the timeline, second call Err, no further events for that address",
        m, move |i| api_case(i, seed), eval, false));
    let eoffs: Vec<u32> = ctx.tier.pick(vec![0, 2], vec![0, 1, 2, 3]);
    let ne = NBASE * 10 * eoffs.len() as u64 * 2;
    rep.part(|| run_enum(ctx, "early_death",
        "the same base configs; the remote dies (timeout) or is dropped with disconnect_player within -3..=+6 ticks of the tick in which the survivor becomes Running, with the last 0/2 (quick) 0..=3 (thorough) ticks of its packets lost: drops before the first input of the remote has arrived, after one or two inputs, with the survivor already several predicted frames ahead; same oracle (cases in which the survivor never became Running carry no C07 obligation and count as trivial)",
        ne, move |i| early_case(i, seed, &eoffs), eval, true));
    rep.part(|| run_enum(ctx, "death_before_start",
        "the same base configs with a spectator that cannot be reached during the first seconds, so the session stays Synchronizing although the remote player's endpoint is synchronized; the remote dies (timeout) or is dropped with disconnect_player 2-11 ticks after that, and the spectator's link comes up 0.3 / 4 / 5.6 / 7 s after the drop (i.e. also after the dropped endpoint's 5 s shutdown timer): same oracle, and the survivor must then become Running, mark the player disconnected and advance, its spectator too",
        NBASE * ctx.tier.pick(4, 8), move |i| prestart_case(i, seed), eval_prestart, false));
    rep.assumptions = vec!["timing is judged at poll granularity (the session can only notice a timeout when it is polled); polls every 16 ms".into()];
    rep
}
