//! Post-hoc oracles over an `Outcome`: event grammar and timing (C07/C12), handshake ledger
//! (C12), spectator replay (C06), dropped-player timeline (C07/C10).
use crate::sim::scenario::*;
use crate::sim::types::*;
use crate::sim::world::*;
use std::collections::{BTreeMap, BTreeSet};

pub type V = Option<(String, String)>;

fn v(sig: &str, msg: String) -> V {
    Some((sig.to_string(), msg))
}

/// (session name, own address, events, poll times)
pub fn sessions<'a>(out: &'a Outcome) -> Vec<(String, Addr, &'a [(u64, Ev)], &'a [u64])> {
    let mut s = Vec::new();
    for (i, p) in out.peers.iter().enumerate() {
        s.push((format!("peer{i}"), p.addr, &p.events[..], &p.poll_times[..]));
    }
    for (i, p) in out.specs.iter().enumerate() {
        s.push((format!("spec{i}"), p.addr, &p.events[..], &p.poll_times[..]));
    }
    s
}

/// C12 grammar per (session, remote address):
/// Synchronizing{count 1..total-1 ascending} -> exactly one Synchronized -> strict alternation
/// Interrupted/Resumed -> at most one Disconnected, nothing afterwards.
pub fn event_grammar(out: &Outcome) -> V {
    for (name, _me, events, _) in sessions(out) {
        let mut by_addr: BTreeMap<Addr, Vec<&Ev>> = BTreeMap::new();
        for (_, e) in events {
            if let Some(a) = e.addr() {
                if !matches!(e, Ev::Desync { .. }) {
                    by_addr.entry(a).or_default().push(e);
                }
            }
        }
        for (addr, evs) in by_addr {
            let mut count_seen = 0u32;
            let mut synced = false;
            let mut interrupted = false;
            let mut disconnected = false;
            for e in evs {
                if disconnected {
                    return v("C12.after_disconnected", format!("{name}: event {e:?} for address {addr} after Disconnected"));
                }
                match e {
                    Ev::Synchronizing { total, count, .. } => {
                        if synced {
                            return v("C12.synchronizing_after_synchronized", format!("{name}: {e:?} after Synchronized for {addr}"));
                        }
                        if *total != 5 || *count != count_seen + 1 || *count >= *total {
                            return v("C12.synchronizing_count", format!("{name}: {e:?} for {addr} after count {count_seen} (expected count {} of total 5, count < total)", count_seen + 1));
                        }
                        count_seen = *count;
                    }
                    Ev::Synchronized { .. } => {
                        if synced {
                            return v("C12.synchronized_twice", format!("{name}: second Synchronized for {addr}"));
                        }
                        if count_seen != 4 {
                            return v("C12.synchronized_early", format!("{name}: Synchronized for {addr} after only {count_seen} Synchronizing events (total 5 announced)"));
                        }
                        synced = true;
                    }
                    Ev::Interrupted { .. } => {
                        if !synced || interrupted {
                            return v("C12.interrupted_order", format!("{name}: NetworkInterrupted for {addr} while synced={synced} interrupted={interrupted}"));
                        }
                        interrupted = true;
                    }
                    Ev::Resumed { .. } => {
                        if !synced || !interrupted {
                            return v("C12.resumed_order", format!("{name}: NetworkResumed for {addr} without a preceding NetworkInterrupted"));
                        }
                        interrupted = false;
                    }
                    Ev::Disconnected { .. } => {
                        if !synced {
                            return v("C12.disconnected_before_sync", format!("{name}: Disconnected for {addr} before Synchronized"));
                        }
                        disconnected = true;
                    }
                    _ => {}
                }
            }
        }
    }
    None
}

/// Running <=> every endpoint produced Synchronized (or was disconnected). Checked at the end:
/// a session that reports Running must have a Synchronized event for every remote address it
/// talks to; a session whose every address synchronized must be Running.
pub fn running_iff_all_synced(sc: &Scenario, out: &Outcome) -> V {
    if !sc.drain {
        return None;
    }
    for (i, p) in out.peers.iter().enumerate() {
        if p.panicked || p.kill_ms.is_some() {
            continue;
        }
        let addrs = crate::gen::neighbours(sc, p.addr);
        let synced: BTreeSet<Addr> = p.events.iter().filter_map(|e| if let Ev::Synchronized { addr } = e.1 { Some(addr) } else { None }).collect();
        let all = addrs.iter().all(|a| synced.contains(a));
        if p.running && !all {
            return v("C12.running_before_all_synced", format!("peer{i} is Running but only {:?} of {:?} produced Synchronized", synced, addrs));
        }
        if !p.running && all && !addrs.is_empty() {
            return v("C12.not_running_although_synced", format!("peer{i} is not Running although all of {:?} produced Synchronized", addrs));
        }
        if let Some(t) = p.running_since_ms {
            // Running must not be observed before the last Synchronized event
            let last_sync = p.events.iter().filter_map(|e| if matches!(e.1, Ev::Synchronized { .. }) { Some(e.0) } else { None }).max();
            if let Some(ls) = last_sync {
                if all && t < ls {
                    return v("C12.running_early", format!("peer{i} was Running at {t} ms but the last Synchronized came at {ls} ms"));
                }
            }
        }
    }
    None
}

/// At Synchronized(addr) the number of distinct nonces this session sent to addr whose reply had
/// been delivered is >= 5 (and >= count at every Synchronizing{count}).
pub fn handshake_ledger(out: &Outcome) -> V {
    for (name, me, events, _) in sessions(out) {
        for (t, e) in events {
            let (addr, need) = match e {
                Ev::Synchronizing { addr, count, .. } => (*addr, *count as usize),
                Ev::Synchronized { addr } => (*addr, 5usize),
                _ => continue,
            };
            let sent: BTreeSet<u32> = out.net.ledgers.get(&(me, addr)).map(|l| l.sync_req_sent.iter().copied().collect()).unwrap_or_default();
            let matched: BTreeSet<u32> = out
                .net
                .ledgers
                .get(&(addr, me))
                .map(|l| l.sync_reply_delivered.iter().filter(|(ts, n)| ts <= t && sent.contains(n)).map(|x| x.1).collect())
                .unwrap_or_default();
            if matched.len() < need {
                return v(
                    "C12.handshake_roundtrips",
                    format!("{name}: {e:?} at {t} ms but only {} distinct request nonces had a reply delivered from {addr} (stray/duplicate/foreign replies must not count)", matched.len()),
                );
            }
        }
    }
    None
}

#[derive(Debug, Clone, PartialEq, Eq)]
pub enum TEv {
    Interrupted(u128),
    Resumed,
    Disconnected,
}

/// Predicts the exact Interrupted/Resumed/Disconnected sequence (with poll-instant timestamps)
/// for (session, addr) from the session's poll instants and the instants at which packets from
/// addr were handed to it, and compares it with the observed events.
/// `skip_addrs`: addresses whose endpoint is disconnected by other means (API call, gossip,
/// unacknowledged-spectator cap) - not predictable from deliveries alone.
pub fn event_timing(sc: &Scenario, out: &Outcome, skip: &dyn Fn(&str, Addr) -> bool) -> V {
    if !sc.drain || sc.peers.iter().any(|p| p.use_wait) {
        return None;
    }
    let notify = sc.notify_ms as u64;
    let timeout = sc.timeout_ms as u64;
    for (name, me, events, polls) in sessions(out) {
        let addrs: BTreeSet<Addr> = events.iter().filter_map(|e| if let Ev::Synchronized { addr } = e.1 { Some(addr) } else { None }).collect();
        for addr in addrs {
            if skip(&name, addr) {
                continue;
            }
            let ts = events.iter().find_map(|e| if e.1 == (Ev::Synchronized { addr }) { Some(e.0) } else { None }).unwrap();
            let deliveries: BTreeSet<u64> = out.net.ledgers.get(&(addr, me)).map(|l| l.delivery_calls.iter().copied().collect()).unwrap_or_default();
            let mut expected: Vec<(u64, TEv)> = Vec::new();
            let mut last_recv = ts;
            let mut notify_sent = false;
            // every poll (== receive call) of this session, in order; poll k had a delivery from addr
            // iff k is in the link's delivery_calls
            for (k, &t) in polls.iter().enumerate() {
                if t < ts {
                    continue;
                }
                if t > ts && deliveries.contains(&(k as u64)) {
                    last_recv = t;
                    if notify_sent {
                        expected.push((t, TEv::Resumed));
                        notify_sent = false;
                    }
                }
                if !notify_sent && last_recv + notify < t {
                    expected.push((t, TEv::Interrupted(timeout.saturating_sub(notify) as u128)));
                    notify_sent = true;
                }
                if last_recv + timeout < t {
                    expected.push((t, TEv::Disconnected));
                    break;
                }
            }
            let actual: Vec<(u64, TEv)> = events
                .iter()
                .filter(|e| e.0 >= ts)
                .filter_map(|(t, e)| match e {
                    Ev::Interrupted { addr: a, timeout } if *a == addr => Some((*t, TEv::Interrupted(*timeout))),
                    Ev::Resumed { addr: a } if *a == addr => Some((*t, TEv::Resumed)),
                    Ev::Disconnected { addr: a } if *a == addr => Some((*t, TEv::Disconnected)),
                    _ => None,
                })
                .collect();
            if expected != actual {
                // first difference
                let i = (0..expected.len().max(actual.len())).find(|i| expected.get(*i) != actual.get(*i)).unwrap();
                let kind = match (expected.get(i), actual.get(i)) {
                    (Some((_, TEv::Interrupted(_))), _) | (_, Some((_, TEv::Interrupted(_)))) => "interrupted",
                    (Some((_, TEv::Disconnected)), _) | (_, Some((_, TEv::Disconnected))) => "disconnected",
                    _ => "resumed",
                };
                return v(
                    &format!("C12.timing_{kind}"),
                    format!(
                        "{name} / address {addr} (notify {notify} ms, timeout {timeout} ms, synchronized at {ts}): expected event #{i} {:?}, observed {:?}; expected sequence {:?}, observed {:?}",
                        expected.get(i),
                        actual.get(i),
                        expected.iter().take(6).collect::<Vec<_>>(),
                        actual.iter().take(6).collect::<Vec<_>>()
                    ),
                );
            }
        }
    }
    None
}

/// C06: the n-th frame the spectator advanced carries the host's final inputs for frame n and
/// Disconnected exactly where the host's final timeline has it.
pub fn spectator_replay(_sc: &Scenario, out: &Outcome) -> V {
    for (i, s) in out.specs.iter().enumerate() {
        let h = &out.peers[s.host];
        for (n, row) in s.timeline.iter().enumerate() {
            if n as i32 > h.last_conf.max(-1) && h.last_conf >= 0 {
                return v("C06.beyond_confirmed_final", format!("spec{i} replayed frame {n} but host peer{} only confirmed up to {}", s.host, h.last_conf));
            }
            for (p, (val, st)) in row.iter().enumerate() {
                let (hv, hst) = if n < h.timeline.len() {
                    h.timeline[n][p]
                } else {
                    // host confirmed (delays) but has not simulated frame n yet: compare with the truth
                    match out.truth[p].get(n) {
                        Some(t) => (*t, ST_CONF),
                        None => continue,
                    }
                };
                let host_disc = hst == ST_DISC;
                let spec_disc = *st == ST_DISC;
                if *st == ST_PRED {
                    return v("C06.predicted", format!("spec{i} frame {n} player {p}: spectator input has status Predicted"));
                }
                if host_disc != spec_disc {
                    return v("C06.status", format!("spec{i} frame {n} player {p}: spectator status {} but host's final timeline has status {}", st, hst));
                }
                if *val != hv {
                    return v("C06.value", format!("spec{i} frame {n} player {p}: spectator value {val} but the host's final (confirmed) timeline has {hv}"));
                }
            }
        }
    }
    None
}

/// C07/C10: on every live peer the dropped players' final inputs are the real ones up to the
/// cut-off (the peer's own `last_frame`) and default + Disconnected afterwards.
pub fn dropped_player_timeline(out: &Outcome) -> V {
    for (i, p) in out.peers.iter().enumerate() {
        if !p.alive || p.panicked {
            continue;
        }
        for (h, (disc, last)) in p.cs.iter().enumerate() {
            if !*disc {
                continue;
            }
            for (f, row) in p.timeline.iter().enumerate() {
                let (val, st) = row[h];
                if (f as i32) <= *last {
                    let t = out.truth[h].get(f).copied();
                    if st == ST_DISC || Some(val) != t {
                        return v("C07.before_cutoff", format!("peer{i}: player {h} dropped with last frame {last}, but frame {f} ends with value {val} status {st} (true input {t:?})"));
                    }
                } else if st != ST_DISC || val != 0 {
                    return v(
                        "C07.after_cutoff",
                        format!("peer{i}: player {h} dropped with last frame {last}, but frame {f} (after the cut-off) ends with value {val} status {st} instead of default/Disconnected"),
                    );
                }
            }
        }
    }
    None
}

/// frames advanced by every live peer / spectator during the last `last_ticks` rounds
pub fn progress_in_tail(out: &Outcome, last_ticks: u32) -> (Vec<i32>, Vec<i32>) {
    let end = out.ticks_run.saturating_sub(1);
    let from = end.saturating_sub(last_ticks);
    let mark = out.progress_marks.iter().filter(|m| m.0 <= from).last();
    let peers = match mark {
        Some((_, fr)) => out.peers.iter().enumerate().map(|(i, p)| p.current_frame - fr[i]).collect(),
        None => out.peers.iter().map(|p| p.current_frame).collect(),
    };
    let specs = out
        .specs
        .iter()
        .map(|s| {
            let m = s.progress_marks.iter().filter(|m| m.0 <= from).last();
            s.current_frame - m.map(|m| m.1).unwrap_or(-1)
        })
        .collect();
    (peers, specs)
}
