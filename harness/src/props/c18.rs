//! C18 - internal buffers stay bounded over arbitrarily long sessions.
use super::common::*;
use super::posthoc::*;
use crate::engine::*;
use crate::gen::*;
use crate::sim::net::LinkProfile;
use crate::sim::scenario::*;
use crate::sim::types::*;
use crate::sim::world::*;
use proptest::prelude::*;

pub const PROPS: &[&str] = &["C18"];

pub fn bounds(sc: &Scenario) -> Vec<(&'static str, usize)> {
    let mp = sc.max_pred as usize;
    let md = sc.peers.iter().map(|p| p.delay as usize).max().unwrap_or(0);
    vec![
        ("events", 100),
        // static, equal delays per peer: nothing waits
        ("outgoing", 0),
        // a sender runs at most max_prediction beyond what the receiver confirmed, in both directions, plus delays
        ("pending_player", 2 * mp + 2 * md + 4),
        // cap 128, plus what one call can flush before the disconnect takes effect
        ("pending_spec", 128 + mp + md + 3),
        // the receive history covers the sender's whole unacknowledged window (128 + 1 inputs) or twice the
        // prediction window, whichever is larger (fix 5b: it used to be twice the window only)
        ("recv_inputs", (2 * mp.max(sc.specs.iter().map(|s| s.window as usize).max().unwrap_or(0))).max(129) + 2),
        // documented queue size 32, plus reports that overtook the one which triggered the pruning (reordering)
        ("pending_checksums", 48),
        ("checksum_hist", 33),
        ("send_queue_after_poll", 4),
    ]
}

fn get(b: &BufMax, k: &str) -> usize {
    match k {
        "events" => b.events,
        "outgoing" => b.outgoing,
        "pending_player" => b.pending_player,
        "pending_spec" => b.pending_spec,
        "recv_inputs" => b.recv_inputs,
        "pending_checksums" => b.pending_checksums,
        "checksum_hist" => b.checksum_hist,
        "send_queue_after_poll" => b.send_queue_after_poll,
        _ => 0,
    }
}

pub fn eval(sc: &Scenario) -> CaseResult {
    let out = run(sc, &RunOpts::default());
    let mut r = CaseResult::default();
    r.classes = base_classes(sc, &out);
    r.counters = base_counters(&out);
    r.summary = summary(sc, &out);
    // (a game that is made to diverge on purpose fails C01's comparison by construction)
    let corrupt = sc.ops.iter().any(|o| matches!(o, Op::Corrupt { .. }));
    r.violation = first_violation(&out, if corrupt { &["C18", "C02"] } else { &["C18", "C01", "C02"] });
    let bs = bounds(sc);
    let all: Vec<(String, &[BufMax; 2])> = out.peers.iter().enumerate().map(|(i, p)| (format!("peer{i}"), &p.bufmax)).chain(out.specs.iter().enumerate().map(|(i, s)| (format!("spec{i}"), &s.bufmax))).collect();
    if r.violation.is_none() {
        'outer: for (name, bm) in &all {
            for (k, bound) in &bs {
                let m = get(&bm[0], k).max(get(&bm[1], k));
                if m > *bound {
                    r.violation = Some((format!("C18.bound|{k}"), format!("{name}: buffer '{k}' reached {m}, configuration bound {bound} (window {}, max delay {}, {} frames run)", sc.max_pred, sc.peers.iter().map(|p| p.delay).max().unwrap_or(0), out.peers.iter().map(|p| p.current_frame).max().unwrap_or(0))));
                    break 'outer;
                }
                // drift: a leak shows as growth of the second half's maximum over the first half's
                let (h0, h1) = (get(&bm[0], k), get(&bm[1], k));
                // (buffers with a hard cap - events, checksum maps, spectator pending - legitimately move between 0 and their cap)
                // (since fix d0d3e9a the receive history is one of them: it fills up to its constant size of 129 + the frame -1
                // entry over the first 130 frames received, which a late-starting or stalling peer reaches in the second half)
                let capped = matches!(*k, "events" | "pending_checksums" | "checksum_hist" | "pending_spec" | "send_queue_after_poll" | "recv_inputs");
                if !capped && h1 > 2 * h0 + 8 && !sc.ops.iter().any(|o| matches!(o, Op::LinkDown { .. } | Op::Profile { .. })) {
                    r.violation = Some((format!("C18.drift|{k}"), format!("{name}: buffer '{k}' maximum grew from {h0} (first half) to {h1} (second half) under a stationary schedule")));
                    break 'outer;
                }
            }
        }
    }
    if r.violation.is_none() && sc.drain {
        // a spectator that stopped acknowledging is disconnected (once), not buffered for
        r.violation = event_grammar(&out).map(|(s, m)| (s.replace("C12.", "C18.grammar."), m));
        if r.violation.is_none() && sc.ops.iter().any(|o| matches!(o, Op::LinkDown { from, .. } if *from > 100)) {
            for (i, p) in out.peers.iter().enumerate() {
                // the muted spectator is always spectator 0 (address 101)
                let has_spec = sc.specs.first().map(|s| s.host as usize == i).unwrap_or(false);
                let muted_at = sc.ops.iter().find_map(|o| if let Op::LinkDown { tick, .. } = o { Some(*tick) } else { None }).unwrap_or(0);
                let frames_after = out.progress_marks.iter().filter(|m| m.0 >= muted_at).map(|m| m.1[i]).min().map(|f0| p.current_frame - f0).unwrap_or(0);
                if has_spec && frames_after > 300 && !p.events.iter().any(|e| matches!(e.1, Ev::Disconnected { addr } if addr == 101)) {
                    r.violation = Some(("C18.silent_spectator_kept".into(), format!("peer{i}: its spectator stopped acknowledging but was never disconnected")));
                }
            }
        }
    }
    let frames = out.peers.iter().map(|p| p.current_frame).max().unwrap_or(0);
    r.nontrivial = frames >= 1000;
    for (k, _) in &bs {
        let m = all.iter().map(|(_, bm)| get(&bm[0], k).max(get(&bm[1], k))).max().unwrap_or(0);
        r.counters.push((
            match *k {
                "events" => "max_events",
                "outgoing" => "max_outgoing_local_inputs",
                "pending_player" => "max_pending_output_player",
                "pending_spec" => "max_pending_output_spectator",
                "recv_inputs" => "max_recv_inputs",
                "pending_checksums" => "max_pending_checksums",
                "checksum_hist" => "max_local_checksum_history",
                _ => "max_send_queue_after_call",
            },
            m as u64,
        ));
    }
    r.counters.push(("max_sync_nonces_outstanding", all.iter().map(|(_, bm)| bm[0].sync_requests.max(bm[1].sync_requests) as u64).max().unwrap_or(0)));
    if sc.peers.len() == 1 {
        r.classes.push("all_local_session");
    }
    if !sc.drain {
        r.classes.push("never_drained");
    }
    if sc.ops.iter().any(|o| matches!(o, Op::LinkDown { from, .. } if *from > 100)) {
        r.classes.push("silent_spectator");
    }
    if sc.desync > 0 && sc.peers.iter().any(|p| p.no_checksum) {
        r.classes.push("one_game_without_checksums");
    }
    if sc.ops.iter().any(|o| matches!(o, Op::Kill { .. })) {
        r.classes.push("all_remotes_gone_survivor_plays_on");
    }
    r
}

pub fn gen(tier: Tier) -> BoxedStrategy<Scenario> {
    let mut p = GenParams::default();
    p.min_peers = 1;
    p.ticks = tier.pick((2000, 2600), (6000, 9000));
    p.desync = vec![1, 1, 2, 0];
    p.outages = 0;
    p.pauses = 0;
    p.loss = vec![0, 5, 20, 40];
    p.settle = 60;
    p.timeouts = vec![(2000, 10000)];
    p.windows.push((2, 0));
    (scenario(&p), any::<u8>(), any::<u16>())
        .prop_map(|(mut sc, k, t)| {
            if sc.peers.len() == 1 {
                sc.peers[0].locals = 2;
                sc.specs.clear();
            }
            // the bound on outgoing_local_inputs is for equal delays of a peer's local players (static)
            match k % 5 {
                4 => {
                    // every remote peer disappears and the survivor plays on alone for a long time
                    // (two-peer sessions: deaths in larger sessions are C10's space)
                    sc.peers.truncate(2);
                    sc.specs.retain(|s| s.host == 0);
                    sc.links.clear();
                    sc.notify_ms = 500;
                    sc.timeout_ms = 2000;
                    let tick = 100 + idx(t, (sc.ticks / 3) as usize) as u32;
                    sc.ops.push(Op::Kill { tick, peer: 1 });
                }
                0 => {
                    sc.drain = false;
                    if sc.peers.len() >= 2 && sc.desync > 0 && t % 2 == 0 {
                        // a game that really diverges: DesyncDetected events pile up undrained as well
                        sc.ops.push(Op::Corrupt { peer: 0, frame: 5 });
                    }
                }
                1 if !sc.specs.is_empty() => {
                    // a spectator that stops acknowledging: its outgoing link dies
                    let tick = 100 + idx(t, (sc.ticks / 2) as usize) as u32;
                    let host = sc.specs[0].host;
                    sc.ops.push(Op::LinkDown { tick, from: spec_addr(0), to: peer_addr(host as usize) });
                }
                2 => {
                    // loss phases
                    let q = sc.ticks / 4;
                    sc.ops.push(Op::Profile { tick: q, profile: LinkProfile { loss: 40, dup: 10, lat_min: sc.link.lat_min, lat_max: sc.link.lat_max } });
                    sc.ops.push(Op::Profile { tick: 2 * q, profile: sc.link });
                    sc.ops.push(Op::Profile { tick: 3 * q, profile: LinkProfile { loss: 40, dup: 0, lat_min: sc.link.lat_min, lat_max: sc.link.lat_max } });
                }
                3 if sc.peers.len() >= 2 => {
                    // asymmetric desync detection: one game never supplies checksums, the others report every frame
                    sc.desync = 1 + (t % 2) as u8;
                    sc.peers[0].no_checksum = true;
                }
                _ => {}
            }
            sc
        })
        .boxed()
}

pub fn run_prop(ctx: &Ctx) -> PropReport {
    let mut rep = PropReport::new("C18", "exploration");
    let tier = ctx.tier;
    rep.part(|| run_random(ctx, "long_runs",
        "long histories (2000-2600 ticks quick, 6000-9000 thorough) over C01's topologies plus all-local sessions, a fifth each with events never drained / one game saving without checksums while the others report every frame / a spectator whose acknowledgements stop / 40%-loss phases / the only remote peer dying early while the survivor plays on alone, desync detection mostly on with interval 1-2; after EVERY call the buffer sizes (verif-hooks accessor) must satisfy: events <= 100, outgoing_local_inputs == 0 (static equal delays), pending_output <= 2*window + 2*max_delay + 4 for player endpoints and <= 128 + window + max_delay + 3 for spectator endpoints, recv_inputs <= max(2*window, 129) + 2 (the documented size of the unacknowledged-input window), pending_checksums <= 48 (32 + reordered reports; one game in a fifth of the runs never supplies checksums, so its session only ever stores the others' reports), local_checksum_history <= 33, send_queue <= 4 after a call; the second half's maximum must not exceed twice the first half's plus 8 (drift = leak: a leak grows linearly with the run length, fluctuations of a lossy link do not) under stationary schedules; a silent spectator must get exactly one Disconnected; non-trivial = >= 1000 frames simulated",
        || gen(tier), ctx.tier.pick(1500, 6000), eval));
    rep.floors.push(("long_runs".into(), 0.5));
    rep.assumptions = vec!["buffer sizes are read through the verif-hooks accessor after every advance_frame / poll_remote_clients call".into(), "bounds are derived from the code in props/c18.rs::bounds and stated there".into()];
    rep
}
