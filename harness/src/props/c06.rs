//! C06 - a spectator replays exactly the host's confirmed input sequence.
use super::common::*;
use super::posthoc::*;
use crate::engine::*;
use crate::gen::*;
use crate::sim::scenario::*;
use crate::sim::world::*;
use proptest::prelude::*;

pub const PROPS: &[&str] = &["C06"];

pub fn eval(sc: &Scenario) -> CaseResult {
    let (out, mut r) = eval_core(sc, PROPS, false);
    if r.violation.is_none() {
        r.violation = spectator_replay(sc, &out);
    }
    // metamorphic: attaching spectators never changes what the players simulate
    if r.violation.is_none() && !sc.specs.is_empty() && !has_planned_disconnect(sc) {
        let mut twin = sc.clone();
        twin.specs.clear();
        twin.ops.retain(|o| !matches!(o, Op::Pause { node, .. } if *node >= 100) && !matches!(o, Op::Outage { from, to, .. } if *from > 100 || *to > 100));
        let o2 = run(&twin, &RunOpts::default());
        if let Some(v) = first_violation(&o2, &["C01"]) {
            r.violation = Some((format!("C06.twin|{}", v.0), format!("without spectators: {}", v.1)));
        } else {
            'cmp: for (i, (a, b)) in out.peers.iter().zip(o2.peers.iter()).enumerate() {
                let n = (a.last_conf.min(b.last_conf) + 1).max(0) as usize;
                for f in 0..n.min(a.timeline.len()).min(b.timeline.len()) {
                    let va: Vec<u32> = a.timeline[f].iter().map(|x| x.0).collect();
                    let vb: Vec<u32> = b.timeline[f].iter().map(|x| x.0).collect();
                    if va != vb {
                        r.violation = Some(("C06.spectator_changes_players".into(), format!("peer{i} confirmed frame {f}: inputs {va:?} with spectators attached, {vb:?} without")));
                        break 'cmp;
                    }
                }
            }
        }
    }
    let fell = out.specs.iter().zip(sc.specs.iter()).any(|(o, s)| o.max_behind_seen > s.max_behind as usize);
    let wrapped = out.specs.iter().any(|s| s.timeline.len() > 60);
    r.nontrivial = fell && wrapped;
    if fell {
        r.classes.push("fell_behind");
    }
    if wrapped {
        r.classes.push("spectator_ring_wrapped");
    }
    if out.specs.iter().any(|s| s.too_far > 0) {
        r.classes.push("too_far_behind_reported");
    }
    if out.specs.iter().any(|s| s.catchup_calls > 0) {
        r.classes.push("caught_up_multi_frame");
    }
    if has_planned_disconnect(sc) {
        r.classes.push("player_died_on_host_side");
    }
    r.counters.push(("spectator_frames_compared", out.specs.iter().map(|s| s.timeline.len() as u64).sum()));
    r.counters.push(("max_frames_behind_seen", out.specs.iter().map(|s| s.max_behind_seen as u64).max().unwrap_or(0)));
    r.counters.push(("too_far_behind_errors", out.specs.iter().map(|s| s.too_far).sum()));
    r
}

pub fn gen(tier: Tier) -> BoxedStrategy<Scenario> {
    let mut p = GenParams::default();
    // tick rates other than the default 60 fps (the builder's with_fps follows the game's tick rate)
    p.fps = vec![60, 60, 60, 30, 120, 144];
    p.max_specs = 2;
    p.ticks = tier.pick((300, 1200), (1500, 4000));
    p.pauses = 0;
    p.windows.push((2, 0));
    (scenario(&p), any::<u16>(), 0u32..220, any::<u16>(), any::<u8>(), any::<u16>())
        .prop_map(|(mut sc, h, pause, at, kill, kt)| {
            if sc.specs.is_empty() {
                sc.specs.push(SpecSpec { host: idx(h, sc.peers.len()) as u8, max_behind: 1 + (h % 20) as u8, catchup: 1 + (at % 5) as u8, slow: 30, window: sc.max_pred });
            }
            // a long spectator pause (up to ~3.5 s at 16 ms/tick)
            if pause > 20 {
                let tick = 60 + idx(at, sc.ticks.saturating_sub(80).max(1) as usize) as u32;
                sc.ops.push(Op::Pause { tick, node: 100, ticks: pause });
                sc.notify_ms = 4000;
                sc.timeout_ms = 12_000;
            }
            // a player dying on the host side (two-peer hosts only: 3+-peer deaths are C10's space)
            if sc.peers.len() == 2 && kill % 4 == 0 && sc.max_pred > 0 {
                let host = sc.specs[0].host as usize;
                let victim = 1 - host.min(1);
                if victim != host {
                    sc.ops.retain(|o| !matches!(o, Op::Pause { .. } | Op::Outage { .. }));
                    sc.notify_ms = 300;
                    sc.timeout_ms = 1000;
                    let tick = 80 + idx(kt, sc.ticks.saturating_sub(200).max(1) as usize) as u32;
                    sc.ops.push(Op::Kill { tick, peer: victim as u8 });
                    for s in sc.specs.iter_mut() {
                        s.host = host as u8;
                    }
                }
            }
            sc
        })
        .boxed()
}

/// C07's two-peer drop scenarios with a spectator on the survivor (also dropped together with the
/// player in half of them): what the host simulates must not depend on the spectator being attached.
pub fn host_drop_case(i: u64, seed: u64) -> Scenario {
    let mut sc = if i % 3 == 0 { super::c07::api_case(i / 3, seed) } else { super::c07::death_case((i * 7919) % (super::c07::NBASE * 120), seed, 1, &[0, 2]) };
    let mut jitter = false;
    if i % 3 == 0 && (i / 3) % 2 == 1 {
        // explicit disconnect_player while packets are being reordered and duplicated (0-250 ms jitter from 15
        // ticks before to 25 ticks after the call) and the spectator lags: packets the host sent before the
        // drop reach the spectator after the one that announced it
        if let Some(t) = sc.ops.iter().find_map(|o| if let Op::Disconnect { tick, .. } = o { Some(*tick) } else { None }) {
            let r = crate::sim::types::mix(seed ^ 0x6a17, i);
            let base = sc.link;
            sc.ops.push(Op::Profile { tick: t.saturating_sub(15), profile: crate::sim::net::LinkProfile { loss: 0, dup: [0u8, 30][(r % 2) as usize], lat_min: 0, lat_max: 60 + ((r >> 8) % 200) as u16 } });
            sc.ops.push(Op::Profile { tick: t + 25, profile: base });
            sc.ops.sort_by_key(|o| o.tick());
            jitter = true;
            if sc.specs.is_empty() {
                sc.specs.push(SpecSpec { host: 0, max_behind: 4 + ((r >> 16) % 16) as u8, catchup: 1 + ((r >> 24) % 3) as u8, slow: [0u8, 30, 60][((r >> 28) % 3) as usize], window: sc.max_pred });
            }
        }
    }
    if sc.specs.is_empty() {
        sc.specs.push(SpecSpec { host: 0, max_behind: 10, catchup: 2, slow: 0, window: sc.max_pred });
        if i % 2 == 1 && !jitter {
            if let Some(t) = sc.ops.iter().find_map(|o| if let Op::Kill { tick, .. } = o { Some(*tick) } else { None }) {
                sc.ops.push(Op::LinkDown { tick: t, from: crate::sim::types::spec_addr(0), to: crate::sim::types::peer_addr(0) });
            }
        }
    }
    sc
}

pub fn eval_host_drops(sc: &Scenario) -> CaseResult {
    let out = run(sc, &RunOpts::default());
    let mut r = CaseResult::default();
    r.classes = base_classes(sc, &out);
    r.counters = base_counters(&out);
    r.summary = summary(sc, &out);
    r.violation = first_violation(&out, &["C06", "C02"]);
    if r.violation.is_none() {
        r.violation = spectator_replay(sc, &out);
    }
    if r.violation.is_none() {
        let mut twin = sc.clone();
        let np = sc.num_players();
        twin.specs.clear();
        twin.ops.retain(|o| !matches!(o, Op::LinkDown { from, .. } if *from > 100) && !matches!(o, Op::Disconnect { handle, .. } if *handle as usize >= np));
        let o2 = run(&twin, &RunOpts::default());
        if let Some(v) = first_violation(&o2, &["C02"]) {
            r.violation = Some((format!("C06.twin|{}", v.0), format!("without spectators: {}", v.1)));
        } else {
            let (a, b) = (&out.peers[0], &o2.peers[0]);
            let n = a.timeline.len().min(b.timeline.len());
            if a.cs != b.cs && a.current_frame == b.current_frame {
                r.violation = Some(("C06.spectator_changes_players".into(), format!("host connection status {:?} with the spectator attached, {:?} without", a.cs, b.cs)));
            }
            for f in 0..n {
                let va: Vec<(u32, bool)> = a.timeline[f].iter().map(|x| (x.0, x.1 == crate::sim::types::ST_DISC)).collect();
                let vb: Vec<(u32, bool)> = b.timeline[f].iter().map(|x| (x.0, x.1 == crate::sim::types::ST_DISC)).collect();
                if va != vb && r.violation.is_none() {
                    r.violation = Some(("C06.spectator_changes_players".into(), format!("host frame {f}: final inputs {va:?} with the spectator attached, {vb:?} without")));
                }
            }
        }
    }
    r.nontrivial = out.peers[0].cs.iter().any(|c| c.0) && out.specs.iter().any(|s| s.timeline.len() > 20);
    r.classes.push("player_died_on_host_side");
    if sc.ops.iter().any(|o| matches!(o, Op::LinkDown { from, .. } if *from > 100)) || sc.ops.iter().any(|o| matches!(o, Op::Disconnect { handle, .. } if *handle as usize >= sc.num_players())) {
        r.classes.push("spectator_dropped_together_with_player");
    }
    r
}

pub fn run_prop(ctx: &Ctx) -> PropReport {
    let mut rep = PropReport::new("C06", "exploration");
    let tier = ctx.tier;
    rep.part(|| run_random(ctx, "spectators",
        "C01 topologies with 1-2 spectators on one or two hosts, spectator tick rates 0.25-1x, spectator pauses up to 3.5 s, max_frames_behind 1..=59, catchup_speed 1..=70, loss/dup/reorder on every link, in a quarter of the two-peer cases the non-host peer dies; oracle: n-th spectator AdvanceFrame == host's final timeline for frame n (values, Disconnected exactly where the host has it), contiguous from 0, never beyond host.confirmed_frame(), per-call step <= 1 unless more than max_frames_behind are buffered and then <= min(catchup_speed, buffered), errors never move current_frame(); metamorphic twin without spectators gives identical confirmed player inputs; non-trivial = spectator fell more than max_frames_behind behind AND its 60-slot ring wrapped",
        || gen(tier), ctx.tier.pick(5000, 20000), eval));
    let seed = ctx.seed;
    rep.part(|| run_enum(ctx, "host_drops",
        "C07's two-peer drop scenarios (moment of death x lost tail, explicit disconnect_player) with a spectator on the survivor, in half of them dropped together with the player (silent from the same instant, or disconnected by the next call), in a sixth of them with 0-250 ms of latency jitter and duplication around an explicit disconnect_player and a lagging spectator (packets sent before the drop arrive after the one announcing it): spectator frames == host's final timeline, and the host's final timeline and connection status identical to the twin run without the spectator",
        ctx.tier.pick(3000u64, 20000u64), move |i| host_drop_case(i, seed), eval_host_drops, false));
    rep.floors.push(("spectators".into(), 0.2));
    rep.assumptions = vec!["spectator sessions are built with the same num_players and (mostly) the same prediction window as their host".into()];
    rep
}
