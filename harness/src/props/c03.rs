//! C03 - input status is truthful and confirmed inputs are final.
use super::common::*;
use crate::engine::*;
use crate::gen::*;
use crate::sim::scenario::{Op, Scenario};
use proptest::prelude::*;

pub const PROPS: &[&str] = &["C03"];

pub fn eval(sc: &Scenario) -> CaseResult {
    let (out, mut r) = eval_core(sc, PROPS, false);
    if r.violation.is_none() {
        // spectator sessions hand out statuses and values too (Confirmed = the real input, Disconnected = default
        // input of a player dropped at an earlier frame)
        r.violation = super::posthoc::spectator_replay(sc, &out).map(|(s, m)| (format!("C03.spectator|{s}"), m));
    }
    let corrected: u64 = out.peers.iter().map(|p| p.predicted_corrected).sum();
    let sticky: u64 = out.peers.iter().map(|p| p.sticky2).sum();
    r.nontrivial = corrected > 0 && sticky > 0;
    r.counters.push(("predicted_inputs", out.peers.iter().map(|p| p.predicted_seen).sum()));
    r.counters.push(("predicted_then_corrected", corrected));
    r
}

pub fn eval_drops(sc: &Scenario) -> CaseResult {
    let (out, mut r) = eval_core(sc, PROPS, false);
    if r.violation.is_none() {
        // the statuses a spectator session hands out are input statuses too
        r.violation = super::posthoc::spectator_replay(sc, &out).map(|(s, m)| (format!("C03.spectator|{s}"), m));
    }
    r.nontrivial = out.peers.iter().any(|p| p.alive && p.cs.iter().any(|c| c.0));
    r
}

pub fn eval_stale(sc: &Scenario) -> CaseResult {
    let (out, mut r) = eval_core(sc, PROPS, false);
    let confirmed: i32 = out.peers.iter().map(|p| p.last_conf.max(0)).min().unwrap_or(0);
    r.nontrivial = out.forged_before_running > 0 && confirmed >= 50;
    if out.forged_before_running > 0 {
        r.classes.push("foreign_input_packet_during_handshake");
    }
    r
}

pub fn run(ctx: &Ctx) -> PropReport {
    let mut rep = PropReport::new("C03", "exploration");
    let mut p = GenParams::default();
    // tick rates other than the default 60 fps (the builder's with_fps follows the game's tick rate)
    p.fps = vec![60, 60, 60, 30, 120, 144];
    p.ticks = ctx.tier.pick((250, 1200), (2000, 5000));
    let rule = "C01's scenario space, both predictors; for every AdvanceFrame request (first simulations and resimulations) and every player: local => Confirmed and true value; Confirmed => frame <= newest received (session accessor AND network ledger) and true value; Predicted => frame > newest received, player connected, value == predictor(newest received true input) or default if none; Disconnected => player disconnected before that frame and default value; frames at or below confirmed_frame() keep their values in later resimulations; confirmed_frame() monotone; non-trivial = >=1 predicted input later corrected AND >=1 prediction reused for >=2 consecutive frames";
    // a third of the cases: a custom predictor for which predict(default) != default (seeded change C03-r9: the library
    // called the predictor on a blank slot for players from whom nothing had been received yet)
    let with_custom = |s: BoxedStrategy<Scenario>| -> BoxedStrategy<Scenario> {
        use proptest::prelude::*;
        s.prop_map(|mut sc| {
            if sc.seed % 3 == 0 {
                sc.predictor = 2;
                sc.vals = sc.vals.max(4);
            }
            sc
        })
        .boxed()
    };
    rep.parts.push(run_random(ctx, "p2p", rule, || with_custom(scenario(&p)), ctx.tier.pick(6000, 24000), eval));
    // ... and 3-4 peers of which one stays silent for a while after the handshake (its first inputs arrive seconds
    // late) while the others are predicted and corrected: its prediction is re-created at frames > 0 again and again
    let mut ps = p.clone();
    ps.ticks = ctx.tier.pick((200, 500), (400, 1500));
    rep.part(|| run_random(ctx, "silent_peer",
        "3-4 peers, custom predictor x -> x|1 in two thirds of the cases: every packet one peer sends to another is lost for the first 0.3-3 s after the start (timeouts raised), while the other links (latency, loss) keep causing corrections: a player from whom nothing was received yet must be handed the DEFAULT input as Predicted, not predictor(default); same clauses as p2p; non-trivial = a prediction later corrected",
        || {
            use proptest::prelude::*;
            let mut q = ps.clone();
            q.max_peers = 4;
            (scenario(&q), any::<u16>(), 300u32..3000).prop_map(|(mut sc, l, len)| {
                if sc.seed % 3 != 1 {
                    sc.predictor = 2;
                    sc.vals = sc.vals.max(4);
                }
                let links: Vec<(u8, u8)> = all_links(&sc).into_iter().filter(|(a, b)| *a < 100 && *b < 100).collect();
                if !links.is_empty() {
                    let (from, to) = links[idx(l, links.len())];
                    // half: the whole link is dead (the handshake itself is late); half: only the INPUT packets are
                    // lost - handshake, acknowledgements and reports get through, so the sender is a synchronized, live
                    // peer from whom not a single input has been received yet while the others are predicted and corrected
                    if l % 2 == 0 {
                        sc.ops.push(Op::Outage { tick: 0, from, to, len_ms: len });
                    } else {
                        sc.ops.push(Op::DropClass { tick: 0, from, to, class: crate::sim::wire::Class::Input as u8, len_ms: len });
                    }
                    sc.notify_ms = sc.notify_ms.max(20_000);
                    sc.timeout_ms = sc.timeout_ms.max(40_000);
                    sc.ops.sort_by_key(|o| o.tick());
                }
                sc
            }).boxed()
        },
        ctx.tier.pick(3000, 12000), eval));
    // the Disconnected clause needs drops: C07's two-peer deaths and explicit disconnect_player calls
    // (rollback and lockstep, input delays, spectators), judged with C03's per-request clauses
    let seed = ctx.seed;
    let n = ctx.tier.pick(3000u64, 20000u64);
    rep.part(|| run_enum(ctx, "drops",
        "C07's two-peer drop scenarios (seeded sample of moment of death x lost tail, and explicit disconnect_player while the remote is ahead; rollback and lockstep): every request's statuses must satisfy the same clauses - Disconnected only for frames after the player's last received frame, with the default value; frames up to it Confirmed with the real input; the survivor's spectator hands out the same values and statuses (also when packets sent before the drop reach it after the one announcing the drop)",
        n, move |i| {
            // C06's variant of the same cases: always a spectator on the survivor, partly with reordering
            // around the drop and a lagging spectator
            super::c06::host_drop_case(i, seed)
        },
        eval_drops, false));
    let mut pw = p.clone();
    pw.windows = vec![(1, 0)];
    pw.ticks = ctx.tier.pick((250, 800), (1500, 4000));
    rep.part(|| run_random(ctx, "lockstep",
        "prediction window 0 (lockstep), partly through advance_frame_with_wait* with inputs arriving during the wait: the same clauses - in particular every input is Confirmed (or Disconnected), was really received, and carries the true value; non-trivial = >=1 stalled call and > 20 frames",
        || super::c02::lockstep_wait(&pw), ctx.tier.pick(2000, 8000),
        |sc| {
            let (out, mut r) = eval_core(sc, PROPS, false);
            let ls: u64 = out.peers.iter().map(|p| p.lockstep_stalls).sum();
            let adv: u64 = out.peers.iter().map(|p| p.stats.first_sims).sum();
            r.nontrivial = ls > 0 && adv > 20;
            if out.peers.iter().any(|p| p.midwait_deliveries > 0) {
                r.classes.push("midwait_delivery");
            }
            r
        }));
    // packets of ANOTHER session (a previous incarnation of the peer on the same address, an unknown address) while the
    // handshake is still going on and afterwards: whatever they carry was never sent by this session's player, so
    // nothing of it may be handed out as Confirmed (added after seeded change C03-r8 was missed: the magic filter
    // exempted every message kind, not only handshake messages, while an endpoint was still synchronizing)
    let tier = ctx.tier;
    rep.part(|| run_random(ctx, "stale_session",
        "C08's lossy scenarios (2-3 peers, spectators, slow handshakes) reduced to FOREIGN packets (another session's magic on copies of real input packets with shifted frames, a stale session's valid first input packet of three frames, its other messages and handshake packets, real packets from an unknown address), at least four of them during the handshake and the first ticks after it; C03's clauses unchanged: Confirmed => really received from this session's peer (accessor and ledger) and the true value; non-trivial = >=1 foreign input packet delivered while its receiver was not yet Running AND >= 50 confirmed frames",
        move || {
            use proptest::prelude::*;
            (super::c08::gen(tier, true), proptest::collection::vec((any::<u16>(), 1u32..70, 0u8..3, 1i32..6), 4..10)).prop_map(|(mut sc, extra)| {
                let own = |k: u8| k <= 3 || k == 12 || k == 13 || k == 8 || k == 9;
                sc.ops.retain(|o| match o {
                    Op::Forge { kind, .. } => !own(*kind),
                    Op::Kill { .. } => false,
                    _ => true,
                });
                let links = all_links(&sc);
                for (l, tick, which, a) in extra {
                    let (from, to) = links[idx(l, links.len())];
                    if to >= 100 && from >= 100 {
                        continue;
                    }
                    let kind = [6u8, 6, 5][which as usize];
                    let bytes = if kind == 6 { super::c08::stale_first_packet(&sc, from, to) } else { vec![] };
                    sc.ops.push(Op::Forge { tick, to, from, kind, a, b: if kind == 5 { a - 3 } else { 0 }, bytes });
                }
                sc.ops.sort_by_key(|o| o.tick());
                sc
            }).boxed()
        },
        ctx.tier.pick(3000, 12000),
        eval_stale));
    rep.floors.push(("p2p".into(), 0.3));
    rep.assumptions = vec!["connection status (disconnected flag, last received frame) is read through the verif-hooks accessor right after each call; cross-checked against the network ledger".into()];
    rep
}
