//! C03 - input status is truthful and confirmed inputs are final.
use super::common::*;
use crate::engine::*;
use crate::gen::*;
use crate::sim::scenario::Scenario;

pub const PROPS: &[&str] = &["C03"];

pub fn eval(sc: &Scenario) -> CaseResult {
    let (out, mut r) = eval_core(sc, PROPS, false);
    let corrected: u64 = out.peers.iter().map(|p| p.predicted_corrected).sum();
    let sticky: u64 = out.peers.iter().map(|p| p.sticky2).sum();
    r.nontrivial = corrected > 0 && sticky > 0;
    r.counters.push(("predicted_inputs", out.peers.iter().map(|p| p.predicted_seen).sum()));
    r.counters.push(("predicted_then_corrected", corrected));
    r
}

pub fn run(ctx: &Ctx) -> PropReport {
    let mut rep = PropReport::new("C03", "exploration");
    let mut p = GenParams::default();
    p.ticks = ctx.tier.pick((250, 1200), (2000, 5000));
    let rule = "C01's scenario space, both predictors; for every AdvanceFrame request (first simulations and resimulations) and every player: local => Confirmed and true value; Confirmed => frame <= newest received (session accessor AND network ledger) and true value; Predicted => frame > newest received, player connected, value == predictor(newest received true input) or default if none; Disconnected => player disconnected before that frame and default value; frames at or below confirmed_frame() keep their values in later resimulations; confirmed_frame() monotone; non-trivial = >=1 predicted input later corrected AND >=1 prediction reused for >=2 consecutive frames";
    rep.parts.push(run_random(ctx, "p2p", rule, || scenario(&p), ctx.tier.pick(6000, 24000), eval));
    // the Disconnected clause needs drops: C07's two-peer deaths and explicit disconnect_player calls
    // (rollback and lockstep, input delays, spectators), judged with C03's per-request clauses
    let seed = ctx.seed;
    let n = ctx.tier.pick(3000u64, 20000u64);
    rep.part(|| run_enum(ctx, "drops",
        "C07's two-peer drop scenarios (seeded sample of moment of death x lost tail, and explicit disconnect_player while the remote is ahead; rollback and lockstep): every request's statuses must satisfy the same clauses - Disconnected only for frames after the player's last received frame, with the default value; frames up to it Confirmed with the real input",
        n, move |i| {
            if i % 3 == 0 {
                super::c07::api_case(i / 3, seed)
            } else {
                super::c07::death_case((i * 7919) % (super::c07::NBASE * 120), seed, 1, &[0, 2])
            }
        },
        |sc| {
            let (out, mut r) = eval_core(sc, PROPS, false);
            r.nontrivial = out.peers.iter().any(|p| p.alive && p.cs.iter().any(|c| c.0));
            r
        }, false));
    rep.floors.push(("p2p".into(), 0.3));
    rep.assumptions = vec!["connection status (disconnected flag, last received frame) is read through the verif-hooks accessor right after each call; cross-checked against the network ledger".into()];
    rep
}
