//! C15 - time-sync estimates (frames_ahead, ping) are right; wait advice is sane.
use super::common::*;
use crate::engine::*;
use crate::sim::net::LinkProfile;
use crate::sim::scenario::*;
use crate::sim::types::*;
use crate::sim::world::*;

pub const PROPS: &[&str] = &["C15"];

pub fn case(i: u64, seed: u64) -> Scenario {
    let mut k = i;
    let lead = (k % 25) as i32 - 12;
    k /= 25;
    // up to 100 ms the replies to a quality report arrive before the next one is sent (200 ms interval);
    // 130 and 250 ms have one or more reports in flight
    let lat = [0u16, 5, 10, 20, 35, 50, 75, 100, 130, 250, 400][(k % 11) as usize];
    k /= 11;
    let fps = [60u16, 30, 120][(k % 3) as usize];
    k /= 3;
    let delay = [0u8, 2, 6][(k % 3) as usize];
    k /= 3;
    let mut sc = Scenario::basic(mix(seed ^ 0xc15, k), 2);
    sc.fps = fps;
    // desync detection off / every frame / every 5th / every 12th: checksum reports share the endpoint's
    // timers and send queue with the quality reports the estimates are built from
    sc.desync = [0u8, 1, 5, 12][(mix(seed ^ 0xd5c, i) % 4) as usize];
    // mostly a window that never limits the lead; sometimes the default or a small one: lead + input delay +
    // latency (in frames) may then exceed the window, which the estimates must survive
    sc.max_pred = [40u8, 40, 8, 4][((mix(seed ^ 0xd5c, i) >> 8) % 4) as usize];
    // ... as long as the leader never stalls at the window (a stalling leader has no steady lead): it needs the
    // follower's input for frame cur - window, and the follower's newest input is delay - latency frames from its own frame
    let lat_frames = (lat as i32 * fps as i32 + 999) / 1000;
    // ... and as long as the acknowledgement round trip fits into the 2 x window frames of received inputs an
    // endpoint keeps for decoding (beyond that packets are only decodable after a re-acknowledgement and inputs
    // arrive later than the link latency: a degraded regime in which the estimates are off by more than a frame)
    // (until fix d0d3e9a a second restriction applied: the acknowledgement round trip had to fit into the 2 x window
    // frames of received inputs an endpoint kept for decoding)
    if lead.abs() + lat_frames - delay as i32 + 3 > sc.max_pred as i32 {
        sc.max_pred = 40;
    }
    sc.sched = 0;
    sc.fine_poll = true;
    for p in sc.peers.iter_mut() {
        p.delay = delay;
    }
    sc.link = LinkProfile { loss: 0, dup: 0, lat_min: lat, lat_max: lat };
    let fm = (1000 / fps as u32).max(1);
    let pause_tick = (10 * lat as u32 + 250) / fm + 20;
    if lead != 0 {
        // the peer that is to fall behind skips |lead| ticks
        sc.ops.push(Op::Pause { tick: pause_tick, node: if lead > 0 { 1 } else { 0 }, ticks: lead.unsigned_abs() });
    }
    if mix(seed ^ 0x10c5, i) % 3 == 0 {
        // one isolated loss of a QualityReport or QualityReply well before the lead changes: the exchange must
        // simply go on 200 ms later
        let r = mix(seed ^ 0x10c6, i);
        let (from, to) = if r % 2 == 0 { (peer_addr(0), peer_addr(1)) } else { (peer_addr(1), peer_addr(0)) };
        let class = if (r >> 1) % 2 == 0 { crate::sim::wire::Class::QualityReport } else { crate::sim::wire::Class::QualityReply } as u8;
        sc.ops.push(Op::DropNext { tick: pause_tick.saturating_sub(14 + ((r >> 8) % 12) as u32), from, to, class });
        sc.ops.sort_by_key(|o| o.tick());
    }
    sc.ticks = pause_tick + 60 + 400 + 200 * 1000 / (fm * 1000) ;
    sc.ticks = pause_tick + 60 + 400 + (1200 / fm);
    sc.settle = 0;
    sc.timeout_ms = 5000;
    sc.notify_ms = 3000;
    // half of the long links: a disconnect timeout BELOW the link's round-trip time (the timeout bounds how long a
    // peer may be silent, not how long a packet may travel; packets arrive every tick, so nobody is ever dropped) -
    // as long as the pause that produces the lead stays well below it
    let to = 2 * lat as u32 * 3 / 4;
    if lat >= 130 && mix(seed ^ 0x70ff, i) % 2 == 0 && lead.unsigned_abs() * fm + 150 <= to {
        sc.timeout_ms = to;
        sc.notify_ms = to / 2;
    }
    sc
}
pub const NCASES: u64 = 25 * 11 * 3 * 3;

pub fn eval(sc: &Scenario) -> CaseResult {
    let mut opts = RunOpts::default();
    opts.sample_stats = true;
    let out = run(sc, &opts);
    let mut r = CaseResult::default();
    r.classes = base_classes(sc, &out);
    r.counters = base_counters(&out);
    r.violation = first_violation(&out, &["C15", "C01", "C03"]);
    let (a, b) = (&out.peers[0], &out.peers[1]);
    let k = a.current_frame - b.current_frame;
    let lat = sc.link.lat_min as i64;
    let fm = (1000 / sc.fps as i64).max(1);
    let pause_tick = sc.ops.iter().find_map(|o| if let Op::Pause { tick, ticks, .. } = o { Some((*tick + *ticks) as i32) } else { None }).unwrap_or(((10 * lat + 250) / fm + 20) as i32);
    // warm-up: the averaging window is 30 frames and reports arrive every 200 ms
    let warm = pause_tick + 60 + (600 / fm) as i32;
    r.summary = format!("lead={} latency={}ms fps={} delay={} | frames_ahead A {:?} B {:?} | ping {:?}", k, lat, sc.fps, sc.peers[0].delay, a.fa_samples.last(), b.fa_samples.last(), a.stats_samples.last());
    // a steady lead needs sessions that never stall at their prediction window after the warm-up (only possible with
    // the small windows of this enumeration): otherwise the lead itself fluctuates and nothing is claimed
    let steady = a.last_stall_tick as i32 <= pause_tick + 30 && b.last_stall_tick as i32 <= pause_tick + 30;
    if !steady {
        r.classes.push("stalled_at_the_window(lead_not_steady)");
        r.nontrivial = false;
        return r;
    }
    if r.violation.is_none() {
        let bmap: std::collections::BTreeMap<i32, i32> = b.fa_samples.iter().copied().collect();
        let mut compared = 0;
        for (ta, fa) in a.fa_samples.iter() {
            let Some(fb) = bmap.get(ta) else { continue };
            if *ta < warm {
                continue;
            }
            compared += 1;
            if (fa - k).abs() > 1 {
                r.violation = Some(("C15.frames_ahead_leader".into(), format!("tick {ta}: peer0 runs {k} frames ahead of peer1 (latency {lat} ms, {} fps) but its frames_ahead() is {fa}", sc.fps)));
                break;
            }
            if (fb + k).abs() > 1 {
                r.violation = Some(("C15.frames_ahead_follower".into(), format!("tick {ta}: peer1 runs {} frames ahead of peer0 but its frames_ahead() is {fb}; samples (tick, A, B): {:?}; last stalls at ticks {} / {}", -k, a.fa_samples.iter().filter(|x| (x.0 - ta).abs() <= 60).map(|x| (x.0, x.1, bmap.get(&x.0).copied().unwrap_or(99))).collect::<Vec<_>>(), a.last_stall_tick, b.last_stall_tick)));
                break;
            }
            if (fa + fb).abs() > 1 {
                r.violation = Some(("C15.frames_ahead_sum".into(), format!("tick {ta}: frames_ahead() of the two peers are {fa} and {fb}; their sum should be within one frame of zero")));
                break;
            }
        }
        r.counters.push(("frames_ahead_samples_compared", compared));
    }
    if r.violation.is_none() {
        for p in [a, b] {
            let mut last_frame: Option<i32> = None;
            for (t, skip, fa_after, cur) in &p.wait_recs {
                if *fa_after < 3 {
                    r.violation = Some(("C15.wait_below_min".into(), format!("WaitRecommendation(skip {skip}) at {t} ms while frames_ahead() is {fa_after} (< 3)")));
                }
                if *skip as i32 != *fa_after {
                    r.violation = Some(("C15.wait_skip_value".into(), format!("WaitRecommendation carries skip_frames {skip} but frames_ahead() right after the call is {fa_after}")));
                }
                if let Some(l) = last_frame {
                    if cur - l < 60 {
                        r.violation = Some(("C15.wait_cadence".into(), format!("two WaitRecommendations only {} frames apart (frames {l} and {cur})", cur - l)));
                    }
                }
                last_frame = Some(*cur);
            }
        }
    }
    if r.violation.is_none() {
        // if one side is >= 3 ahead for hundreds of frames the advice must actually be given
        if k >= 4 && a.wait_recs.is_empty() {
            r.violation = Some(("C15.wait_never".into(), format!("peer0 runs {k} frames ahead for 400 frames but never got a WaitRecommendation")));
        }
        if k <= -4 && b.wait_recs.is_empty() {
            r.violation = Some(("C15.wait_never".into(), format!("peer1 runs {} frames ahead for 400 frames but never got a WaitRecommendation", -k)));
        }
    }
    if r.violation.is_none() {
        for (p, q) in [(a, b), (b, a)] {
            for (i, (t, _h, res)) in p.stats_samples.iter().enumerate() {
                match res {
                    Err(code) => {
                        if *t >= 1000 + fm as u64 + 1 {
                            r.violation = Some(("C15.stats_unavailable".into(), format!("network_stats() still fails with error code {code} at {t} ms after the connection started")));
                        } else if *code != 6 && *code != 4 {
                            r.violation = Some(("C15.stats_error_kind".into(), format!("network_stats() returned error code {code} at {t} ms (expected NotEnoughData/NotSynchronized)")));
                        }
                    }
                    Ok((ping, lfb, _rfb, _q)) => {
                        if *t < 1000 {
                            r.violation = Some(("C15.stats_too_early".into(), format!("network_stats() returned numbers only {t} ms after the connection started")));
                        }
                        if *t as i64 >= warm as i64 * fm {
                            let ping = *ping as i64;
                            if ping < 2 * lat || ping > 2 * lat + fm + 2 {
                                r.violation = Some(("C15.ping".into(), format!("network_stats().ping = {ping} ms on a link with a true round trip of {} ms (tick {} ms)", 2 * lat, fm)));
                            }
                            if let Some((_, _, Ok((_, _, q_rfb, _)))) = q.stats_samples.iter().find(|x| x.0 == *t) {
                                // the remote figure is what the peer reported up to (200 ms + latency) ago: a change of
                                // the local figure shows up there with that lag, so only a mismatch that persists for
                                // four consecutive samples (640 ms and more) counts
                                let persistent = (0..4).all(|j| {
                                    i >= j && match (&p.stats_samples[i - j], q.stats_samples.iter().find(|x| x.0 == p.stats_samples[i - j].0)) {
                                        ((_, _, Ok((_, l, _, _))), Some((_, _, Ok((_, _, r2, _))))) => (l - r2).abs() > 1,
                                        _ => false,
                                    }
                                });
                                // (not judged for lockstep sessions driven through the wait helper: there a report is
                                // sent from a poll inside the wait loop, before the awaited input has moved the figure that
                                // is sampled after the call - a constant phase offset, not an estimation error)
                                let wait_helper = sc.max_pred == 0 && sc.peers.iter().any(|p| p.use_wait);
                                if (lfb - q_rfb).abs() > 1 && persistent && !wait_helper {
                                    let near = |v: &Vec<(u64, usize, Result<(u128, i32, i32, usize), u8>)>| v.iter().filter(|x| x.0 + 700 >= *t && x.0 <= *t + 100).map(|x| format!("{}:{:?}", x.0, x.2.as_ref().map(|y| (y.1, y.2)).ok())).collect::<Vec<_>>().join(" ");
                                    r.violation = Some(("C15.behind_mismatch".into(), format!("at {t} ms one side reports local_frames_behind {lfb}, the other side's remote_frames_behind is {q_rfb}; (local,remote) samples of the first: {} / of the second: {}", near(&p.stats_samples), near(&q.stats_samples))));
                                }
                            }
                        }
                    }
                }
            }
        }
    }
    if std::env::var("VERIF_DUMP").is_ok() {
        if r.violation.is_some() {
            eprintln!("SAMPLES warm={warm} A={:?}\n        B={:?}\n   statsA={:?}", a.fa_samples, b.fa_samples, a.stats_samples.iter().map(|x| (x.0, x.2.as_ref().map(|y| (y.1, y.2)).ok())).collect::<Vec<_>>());
        }
        eprintln!("DUMP {} | wait={:?} pause={:?} midwait={}/{} stalls={}/{} | {:?}", r.summary, sc.peers.iter().map(|p| p.use_wait).collect::<Vec<_>>(), sc.ops.first(), a.midwait_deliveries, b.midwait_deliveries, a.lockstep_stalls, b.lockstep_stalls, r.violation.as_ref().map(|v| (&v.0, &v.1[..v.1.len().min(160)])));
    }
    r.nontrivial = r.counters.iter().any(|c| c.0 == "frames_ahead_samples_compared" && c.1 >= 10) && a.stats_samples.iter().any(|s| s.2.is_ok());
    if k != 0 {
        r.classes.push("lead!=0");
    }
    if (sc.timeout_ms as i64) < 2 * lat {
        r.classes.push("disconnect_timeout<round_trip");
    }
    if sc.max_pred == 0 {
        r.classes.push("lockstep");
        if a.midwait_deliveries.max(b.midwait_deliveries) >= 100 {
            r.classes.push("lockstep:frames_completed_inside_the_wait_loop>=100");
        }
    }
    if k.abs() >= 3 {
        r.classes.push("lead>=3(wait_advice_expected)");
    }
    if !a.wait_recs.is_empty() || !b.wait_recs.is_empty() {
        r.classes.push("wait_recommendation_raised");
    }
    r.counters.push(("wait_recommendations", (a.wait_recs.len() + b.wait_recs.len()) as u64));
    r
}

/// plain lockstep sessions (window 0, `advance_frame()`), input delay d, any latency: a lead of k frames is possible
/// as long as k + latency (in frames) stays below d; beyond that the leader stalls, the lead is not steady and the
/// case counts as trivial
pub fn lockstep_case(i: u64, seed: u64) -> Scenario {
    let mut k = i;
    let fps = [60u16, 30, 120][(k % 3) as usize];
    k /= 3;
    let delay = [3u8, 4, 6, 8, 12][(k % 5) as usize];
    k /= 5;
    let lat = [0u16, 5, 10, 20, 35, 42, 50, 75, 100][(k % 9) as usize];
    k /= 9;
    let lead = (k % 11) as i32 - 5;
    let mut sc = Scenario::basic(mix(seed ^ 0xc15c, i), 2);
    sc.fps = fps;
    sc.max_pred = 0;
    sc.desync = 0;
    sc.sched = 0;
    sc.fine_poll = true;
    for p in sc.peers.iter_mut() {
        p.delay = delay;
    }
    sc.link = LinkProfile { loss: 0, dup: 0, lat_min: lat, lat_max: lat };
    let fm = (1000 / fps as u32).max(1);
    let pause_tick = (10 * lat as u32 + 250) / fm + 20;
    if lead != 0 {
        sc.ops.push(Op::Pause { tick: pause_tick, node: if lead > 0 { 1 } else { 0 }, ticks: lead.unsigned_abs() });
    }
    sc.ticks = pause_tick + 60 + 400 + (1200 / fm);
    sc.settle = 0;
    sc.timeout_ms = 5000;
    sc.notify_ms = 3000;
    sc
}
pub const NCASES_LS: u64 = 3 * 5 * 9 * 11;

/// lockstep sessions (window 0) with input delay d, driven through the wait helper
/// (`advance_frame_with_wait_timeout(3 ms)`), over a link whose latency is at least that timeout (so that the
/// simulator's parallel-wait clock is exact, see Scenario::wait_mode) and whose round trip is shorter than a tick
/// (beyond that a lockstep endpoint, which keeps a single received frame as decode reference, gets its inputs in
/// bursts and the estimates are noisy). The follower is paused for 0..d+3 ticks: from d on the leader sits at the
/// largest lead lockstep allows; its game loop runs `phase` ms after the follower's, so that the follower's input
/// for the current frame is still in flight when the leader's call begins and arrives 0..2 ms later: the first
/// attempt stalls and the frame is completed from inside the wait loop.
pub fn lockstep_wait_case(i: u64, seed: u64) -> Scenario {
    let mut k = i;
    let fps = [60u16, 30, 120][(k % 3) as usize];
    k /= 3;
    let delay = [3u8, 4, 6, 8][(k % 4) as usize];
    k /= 4;
    let fm = (1000 / fps as u32).max(1);
    let lat = match fps { 60 => [4u16, 5, 7], 30 => [4, 8, 15], _ => [3, 3, 3] }[(k % 3) as usize];
    k /= 3;
    let phase = [lat as u8 - 1, lat as u8 - 2, lat as u8, 0][(k % 4) as usize];
    k /= 4;
    let pause = [0u32, 1, 2, delay as u32 - 1, delay as u32, delay as u32 + 3][(k % 6) as usize];
    k /= 6;
    let who = (k % 3) as u8; // who uses the wait helper: both / leader only / follower only
    k /= 3;
    let follower = (k % 2) as u8;
    let mut sc = Scenario::basic(mix(seed ^ 0xc15b, i), 2);
    sc.fps = fps;
    sc.max_pred = 0;
    sc.wait_mode = 3;
    sc.phase_ms = (0..2u8).map(|j| if j == follower { 0 } else { phase }).collect();
    sc.desync = 0;
    sc.sched = 0;
    sc.fine_poll = true;
    for (j, p) in sc.peers.iter_mut().enumerate() {
        p.delay = delay;
        p.use_wait = match who { 0 => true, 1 => j as u8 != follower, _ => j as u8 == follower };
    }
    sc.link = LinkProfile { loss: 0, dup: 0, lat_min: lat, lat_max: lat };
    let pause_tick = (10 * lat as u32 + 250) / fm + 20;
    if pause > 0 {
        sc.ops.push(Op::Pause { tick: pause_tick, node: follower, ticks: pause });
    }
    sc.ticks = pause_tick + 60 + 400 + (1200 / fm);
    sc.settle = 0;
    sc.timeout_ms = 5000;
    sc.notify_ms = 3000;
    sc
}
pub const NCASES_LW: u64 = 3 * 4 * 3 * 4 * 6 * 3 * 2;

/// three peers: A and B run level, C lags k frames behind and then dies; afterwards A and B still run
/// level with every remaining peer, so their frames_ahead() must be about zero again
pub fn after_drop_case(i: u64, seed: u64) -> Scenario {
    let mut k = i;
    let lag = 3 + (k % 5) as u32;
    k /= 5;
    let fps = [60u16, 30, 120][(k % 3) as usize];
    k /= 3;
    let lat = [0u16, 10, 30][(k % 3) as usize];
    let mut sc = Scenario::basic(mix(seed ^ 0x15d, i), 3);
    sc.fps = fps;
    sc.max_pred = 40;
    sc.sched = 0;
    sc.fine_poll = true;
    sc.link = LinkProfile { loss: 0, dup: 0, lat_min: lat, lat_max: lat };
    let fm = (1000 / fps as u32).max(1);
    let pause_tick = (10 * lat as u32 + 250) / fm + 20;
    sc.ops.push(Op::Pause { tick: pause_tick, node: 2, ticks: lag });
    let kill = pause_tick + 60 + 150;
    sc.ops.push(Op::Kill { tick: kill, peer: 2 });
    sc.notify_ms = 300;
    sc.timeout_ms = 1000;
    // observation window: after the timeout plus the 30-frame averaging window plus report lag
    sc.ticks = kill + 1000 / fm + 60 + 200 + 1200 / fm;
    sc.settle = 0;
    sc
}

pub fn eval_after_drop(sc: &Scenario) -> CaseResult {
    let mut opts = RunOpts::default();
    opts.sample_stats = true;
    let out = run(sc, &opts);
    let mut r = CaseResult::default();
    r.classes = base_classes(sc, &out);
    r.counters = base_counters(&out);
    r.violation = first_violation(&out, &["C15"]);
    let fm = (1000 / sc.fps as i64).max(1);
    let kill = sc.ops.iter().find_map(|o| if let Op::Kill { tick, .. } = o { Some(*tick as i64) } else { None }).unwrap_or(0);
    let from = kill + 1000 / fm + 60 + 1200 / fm; // disconnect + averaging window + report lag
    let disc_ms = out.peers[0].events.iter().find_map(|e| if matches!(e.1, Ev::Disconnected { .. }) { Some(e.0) } else { None });
    r.summary = format!("lag={:?} fps={} | A {:?} B {:?} disconnected_at={:?}", sc.ops.first(), sc.fps, out.peers[0].fa_samples.last(), out.peers[1].fa_samples.last(), disc_ms);
    let mut compared = 0;
    if r.violation.is_none() {
        for p in 0..2 {
            if !out.peers[p].cs.iter().any(|c| c.0) {
                r.violation = Some(("C15.setup_no_drop".into(), format!("peer{p} never dropped the dead peer (harness scenario broken)")));
            }
            for (t, fa) in out.peers[p].fa_samples.iter().filter(|s| s.0 as i64 >= from) {
                compared += 1;
                if fa.abs() > 1 {
                    r.violation = Some(("C15.stale_after_drop".into(), format!("tick {t}: peer{p} runs level with its only remaining peer (the lagging third peer was dropped at {:?} ms) but frames_ahead() is {fa}", disc_ms)));
                    break;
                }
            }
            if let Some(w) = out.peers[p].wait_recs.iter().find(|w| disc_ms.map(|d| w.0 > d + 2000).unwrap_or(false)) {
                if r.violation.is_none() {
                    r.violation = Some(("C15.wait_after_drop".into(), format!("peer{p} got WaitRecommendation(skip {}) at {} ms although it runs level with its only remaining peer", w.1, w.0)));
                }
            }
        }
    }
    r.nontrivial = compared >= 10;
    r.classes.push("lagging_peer_dropped");
    r.counters.push(("frames_ahead_samples_compared", compared));
    r
}

pub fn run_prop(ctx: &Ctx) -> PropReport {
    let mut rep = PropReport::new("C15", "exploration");
    let seed = ctx.seed;
    let reps = ctx.tier.pick(2u64, 8u64);
    rep.part(|| run_enum(ctx, "steady_lead",
        "bounded enumeration: lead k in -12..=12 x symmetric latency {0,5,10,20,35,50,75,100,130,250,400 ms} x fps {60,30,120} x input delay {0,2,6}; two peers, window 40 (sometimes 8 or 4), desync detection off/1/5/12, on half of the long links a disconnect timeout below the round-trip time, lock-stepped ticks after a warm-up, polls every millisecond between ticks (as the documented loop polls every iteration); oracle, sampled every 10 ticks after the warm-up: |frames_ahead_A - k| <= 1, |frames_ahead_B + k| <= 1, |sum| <= 1; every WaitRecommendation raised only with frames_ahead() >= 3 as read right after that call, skip_frames == frames_ahead(), >= 60 frames apart, and given at all when |k| >= 4; 2L <= ping <= 2L + one tick; one side's local_frames_behind == the other's remote_frames_behind (+-1, a mismatch must persist for 4 samples: the remote figure lags by the report interval plus the latency); NotEnoughData before 1 s, numbers afterwards; non-trivial = >= 10 post-warm-up samples and stats available",
        NCASES * reps, move |i| case(i % NCASES, mix(seed, i / NCASES)), eval, true));
    rep.part(|| run_enum(ctx, "lockstep_lead",
        "bounded enumeration: lockstep sessions (window 0, advance_frame()) x fps {60,30,120} x input delay {3,4,6,8,12} x symmetric latency {0,5,10,20,35,42,50,75,100 ms} x lead -5..=5; same oracle as steady_lead (cases in which the leader stalls after the warm-up - lead + latency beyond the delay - have no steady lead and count as trivial)",
        NCASES_LS * ctx.tier.pick(1u64, 3u64), move |i| lockstep_case(i % NCASES_LS, mix(seed, i / NCASES_LS)), eval, true));
    rep.part(|| run_enum(ctx, "lockstep_wait_lead",
        "bounded enumeration: lockstep sessions (window 0) driven through advance_frame_with_wait() x fps {60,120,30} x input delay {3,4,6,8} x latency = 1..2 ticks + a phase of {1, 3, 1/3, 1/2, 2/3 tick} (>= the helper's timeout, so the awaited input arrives while the helper spins) x follower paused for {0,1,2,d-1,d,d+3} ticks (from d - latency on the leader sits at the largest lead lockstep allows and completes every frame from inside the wait loop) x who uses the helper {both, leader, follower} x which peer follows; the peers of a round wait in parallel (Scenario::wait_mode); same oracle as steady_lead",
        NCASES_LW * ctx.tier.pick(1u64, 3u64), move |i| lockstep_wait_case(i % NCASES_LW, mix(seed, i / NCASES_LW)), eval, true));
    rep.part(|| run_enum(ctx, "level_after_drop",
        "enumeration: lag 3..=7 x fps {60,30,120} x latency {0,10,30 ms}: three peers, two run level, the third runs lag frames behind for 150 frames and then dies; once it is timed out and the averaging window has passed, frames_ahead() of the two survivors must be within one frame of zero and no WaitRecommendation may be raised any more",
        45 * reps, move |i| after_drop_case(i % 45, mix(seed, i / 45)), eval_after_drop, true));
    rep.assumptions = vec!["the lead is produced by pausing one peer for |k| ticks after the handshake and is measured from the sessions' current_frame() difference at the end (constant once both tick every round)".into()];
    rep
}
