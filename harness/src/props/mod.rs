pub mod c01;
pub mod c02;
pub mod c03;
pub mod c04;
pub mod c05;
pub mod c06;
pub mod c07;
pub mod c08;
pub mod c09;
pub mod c10;
pub mod c11;
pub mod c12;
pub mod posthoc;
pub mod c13;
pub mod c14;
pub mod c15;
pub mod c16;
pub mod c17;
pub mod c18;
pub mod common;

use crate::engine::*;
use crate::sim::scenario::Scenario;

pub const ALL: &[&str] = &["C01", "C02", "C03", "C04", "C05", "C06", "C07", "C08", "C09", "C10", "C11", "C12", "C13", "C14", "C15", "C16", "C17", "C18"];

pub fn run_prop(ctx: &Ctx) -> Option<PropReport> {
    Some(match ctx.prop {
        "C01" => c01::run(ctx),
        "C02" => c02::run(ctx),
        "C03" => c03::run(ctx),
        "C04" => c04::run(ctx),
        "C05" => c05::run_prop(ctx),
        "C06" => c06::run_prop(ctx),
        "C07" => c07::run_prop(ctx),
        "C08" => c08::run_prop(ctx),
        "C09" => c09::run_prop(ctx),
        "C10" => c10::run_prop(ctx),
        "C11" => c11::run_prop(ctx),
        "C12" => c12::run_prop(ctx),
        "C13" => c13::run(ctx),
        "C14" => c14::run(ctx),
        "C15" => c15::run_prop(ctx),
        "C16" => c16::run_prop(ctx),
        "C17" => c17::run_prop(ctx),
        "C18" => c18::run_prop(ctx),
        _ => return None,
    })
}

/// re-evaluates a saved case; returns None if the (property, part) pair is unknown
pub fn replay(prop: &str, part: &str, case: &serde_json::Value) -> Option<CaseResult> {
    let sc = || serde_json::from_value::<Scenario>(case.clone()).ok();
    Some(match (prop, part) {
        ("C01", _) => c01::eval(&sc()?),
        ("C02", "synctest") | ("C13", _) => c13::replay(part, case)?,
        ("C02", _) => c02::eval(&sc()?),
        ("C03", "drops") => c03::eval_drops(&sc()?),
        ("C03", "stale_session") => c03::eval_stale(&sc()?),
        ("C03", _) => c03::eval(&sc()?),
        ("C14", _) => c14::replay(part, case)?,
        ("C15", "level_after_drop") => c15::eval_after_drop(&sc()?),
        ("C15", _) => c15::eval(&sc()?),
        ("C16", "synctest_misuse") => c13::replay(part, case)?,
        ("C16", _) => c16::replay(part, case)?,
        ("C17", _) => c17::eval(&sc()?),
        ("C18", _) => c18::eval(&sc()?),
        ("C04", _) => c04::eval(&sc()?),
        ("C05", _) => c05::eval(&sc()?),
        ("C06", "host_drops") => c06::eval_host_drops(&sc()?),
        ("C06", _) => c06::eval(&sc()?),
        ("C07", "death_before_start") => c07::eval_prestart(&sc()?),
        ("C07", _) => c07::eval(&sc()?),
        ("C08", "decode") => c14::replay("decode", case)?,
        ("C08", _) => c08::eval(&sc()?),
        ("C09", "detection") => c09::eval_detect(&sc()?),
        ("C09", _) => c09::eval_false_alarm(&sc()?),
        ("C10", "gossip_equal_amounts") | ("C10", "isolated_observer") => c10::eval_gossip(&sc()?),
        ("C10", "stale_status") => c10::eval_stale(&sc()?),
        ("C10", _) => c10::eval(&sc()?),
        ("C11", _) => c11::eval(&sc()?),
        ("C12", "restart_during_handshake") => c12::eval_restart(&sc()?),
        ("C12", _) => c12::eval(&sc()?),
        _ => return None,
    })
}
