pub mod c01;
pub mod c02;
pub mod c03;
pub mod c04;
pub mod c13;
pub mod c14;
pub mod common;

use crate::engine::*;
use crate::sim::scenario::Scenario;

pub const ALL: &[&str] = &["C01", "C02", "C03", "C04", "C13", "C14"];

pub fn run_prop(ctx: &Ctx) -> Option<PropReport> {
    Some(match ctx.prop {
        "C01" => c01::run(ctx),
        "C02" => c02::run(ctx),
        "C03" => c03::run(ctx),
        "C04" => c04::run(ctx),
        "C13" => c13::run(ctx),
        "C14" => c14::run(ctx),
        _ => return None,
    })
}

/// re-evaluates a saved case; returns None if the (property, part) pair is unknown
pub fn replay(prop: &str, part: &str, case: &serde_json::Value) -> Option<CaseResult> {
    let sc = || serde_json::from_value::<Scenario>(case.clone()).ok();
    Some(match (prop, part) {
        ("C01", _) => c01::eval(&sc()?),
        ("C02", "synctest") | ("C13", _) => c13::replay(part, case)?,
        ("C02", _) => c02::eval(&sc()?),
        ("C03", _) => c03::eval(&sc()?),
        ("C14", _) => c14::replay(part, case)?,
        ("C04", _) => c04::eval(&sc()?),
        _ => return None,
    })
}
