//! C09 - desync detection raises no false alarm and catches real divergence.
use super::common::*;
use crate::engine::*;
use crate::gen::*;
use crate::sim::net::LinkProfile;
use crate::sim::scenario::*;
use crate::sim::types::*;
use crate::sim::wire::Class;
use crate::sim::world::*;
use proptest::prelude::*;

pub const PROPS: &[&str] = &["C09"];

pub fn eval_false_alarm(sc: &Scenario) -> CaseResult {
    let (out, mut r) = eval_core(sc, &["C09", "C01"], true);
    if r.violation.is_none() {
        for (i, p) in out.peers.iter().enumerate() {
            if let Some((t, e)) = p.events.iter().find(|e| matches!(e.1, Ev::Desync { .. })) {
                r.violation = Some(("C09.false_alarm".into(), format!("peer{i}: {e:?} at {t} ms although every game is deterministic and all peers simulate the same inputs")));
                break;
            }
        }
    }
    let reports = out.net.delivered[Class::ChecksumReport as usize];
    let each_way = out.net.ledgers.iter().filter(|(k, _)| k.0 <= 100 && k.1 <= 100).all(|(_, l)| l.delivered[Class::ChecksumReport as usize] > 0);
    r.nontrivial = reports > 0 && each_way && out.total_rollbacks() > 0;
    r.counters.push(("checksum_reports_delivered", reports));
    r
}

pub fn gen_false_alarm(tier: Tier) -> BoxedStrategy<Scenario> {
    let mut p = GenParams::default();
    // tick rates other than the default 60 fps (the builder's with_fps follows the game's tick rate)
    p.fps = vec![60, 60, 60, 30, 120, 144];
    p.desync = (1..=12).collect();
    p.ticks = tier.pick((300, 1200), (1500, 4000));
    p.max_specs = 1;
    scenario(&p)
}

/// detection half: peer `c` really diverges from frame F on
pub fn detect_case(i: u64, seed: u64) -> Scenario {
    let mut k = i;
    let interval = 1 + (k % 12) as u8;
    k /= 12;
    let f = 1 + (k % 200) as i32;
    k /= 200;
    let who = (k % 2) as u8;
    let r = mix(seed ^ 0xc09, i);
    let mut sc = Scenario::basic(r, 2 + ((r >> 40) % 2) as usize);
    sc.desync = interval;
    sc.max_pred = [8u8, 4, 12, 2][((r >> 8) % 4) as usize];
    let d = [0u8, 0, 2, 3][((r >> 12) % 4) as usize];
    for p in sc.peers.iter_mut() {
        p.delay = d;
    }
    let lat = [0u16, 10, 40][((r >> 16) % 3) as usize];
    // checksum reports are sent once and never retransmitted, so the timing claim is made for loss-free links
    sc.link = LinkProfile { loss: 0, dup: [0u8, 0, 20][((r >> 20) % 3) as usize], lat_min: lat, lat_max: lat + [0u16, 20][((r >> 24) % 2) as usize] };
    sc.sched = ((r >> 28) % 2) as u8;
    sc.own_snapshots = (r >> 32) % 3 == 0;
    sc.ops.push(Op::Corrupt { peer: who, frame: f - 1 });
    sc.ticks = (f as u32 + 6 * interval as u32 + 120) * 5 / 4 + 60;
    sc.settle = 60;
    sc
}
pub const NDETECT: u64 = 12 * 200 * 2;

pub fn eval_detect(sc: &Scenario) -> CaseResult {
    let out = run(sc, &RunOpts::default());
    let mut r = CaseResult::default();
    r.classes = base_classes(sc, &out);
    r.counters = base_counters(&out);
    r.summary = summary(sc, &out);
    r.violation = first_violation(&out, &["C09"]);
    let (who, cf) = sc.ops.iter().find_map(|o| if let Op::Corrupt { peer, frame } = o { Some((*peer as usize, *frame)) } else { None }).unwrap_or((0, 0));
    let f = cf + 1; // first frame whose saved state differs
    let interval = sc.desync as i32;
    if r.violation.is_none() {
        for (i, p) in out.peers.iter().enumerate() {
            // peers not involved in a differing pair see nothing: only pairs (who, other) differ
            let evs: Vec<&(u64, Ev)> = p.events.iter().filter(|e| matches!(e.1, Ev::Desync { .. })).collect();
            let involved = i == who || true;
            if p.last_conf < f + 4 * interval + 2 {
                continue; // run too short to judge this peer
            }
            if !involved {
                continue;
            }
            let mut relevant: Vec<&&(u64, Ev)> = evs.iter().filter(|e| if let Ev::Desync { addr, .. } = e.1 { i == who || addr == peer_addr(who) } else { false }).collect();
            // reports can overtake each other on a jittery link and several events of one call come in
            // ascending frame order only per peer: judge the lowest frame ever reported (all reports arrive:
            // the link is loss-free), which must be the first divergent report
            relevant.sort_by_key(|e| if let Ev::Desync { frame, .. } = e.1 { frame } else { 0 });
            match relevant.first() {
                None => {
                    r.violation = Some(("C09.missed".into(), format!("peer{i}: state of peer{who} diverges from frame {f} on (interval {interval}) but no DesyncDetected although confirmed frame reached {}", p.last_conf)));
                    break;
                }
                Some((_, Ev::Desync { frame, local, remote, addr })) => {
                    if *frame < f || *frame > f + 2 * interval {
                        r.violation = Some(("C09.frame_range".into(), format!("peer{i}: first DesyncDetected names frame {frame}, divergence starts at frame {f}, interval {interval}")));
                        break;
                    }
                    let other = (*addr - 1) as usize;
                    let lok = p.saved_checksums.get(frame).map(|v| v.contains(local)).unwrap_or(false);
                    let rok = out.peers[other].saved_checksums.get(frame).map(|v| v.contains(remote)).unwrap_or(false);
                    if !lok || !rok || local == remote {
                        r.violation = Some(("C09.checksums".into(), format!("peer{i}: DesyncDetected(frame {frame}) carries local {local:x} remote {remote:x}; the games saved {:?} / {:?} for that frame", p.saved_checksums.get(frame), out.peers[other].saved_checksums.get(frame))));
                        break;
                    }
                }
                _ => {}
            }
            // every event must be about a frame >= f and between a differing pair
            for (_, e) in &evs {
                if let Ev::Desync { frame, addr, .. } = e {
                    if *frame < f {
                        r.violation = Some(("C09.before_divergence".into(), format!("peer{i}: DesyncDetected for frame {frame} before the divergence at {f}")));
                    }
                    if i != who && *addr != peer_addr(who) {
                        r.violation = Some(("C09.wrong_pair".into(), format!("peer{i}: DesyncDetected against address {addr} although only peer{who} diverged")));
                    }
                }
            }
        }
    }
    r.nontrivial = out.peers.iter().any(|p| p.events.iter().any(|e| matches!(e.1, Ev::Desync { .. })));
    r
}

pub fn run_prop(ctx: &Ctx) -> PropReport {
    let mut rep = PropReport::new("C09", "exploration");
    let tier = ctx.tier;
    let seed = ctx.seed;
    rep.part(|| run_random(ctx, "false_alarm",
        "C01's scenario space with desync detection on (interval 1..=12), sparse saving on/off, all schedules/loss patterns: any DesyncDetected event is a violation; non-trivial = checksum reports were delivered in both directions of every player link AND >=1 rollback happened",
        || gen_false_alarm(tier), ctx.tier.pick(5000, 20000), eval_false_alarm));
    let stride = ctx.tier.pick(2u64, 1u64);
    rep.part(|| run_enum(ctx, "detection",
        "enumeration: interval 1..=12 x divergence frame F 1..=200 x which peer diverges (every 2nd case quick, all thorough), 2-3 peers, seeded window/delay/latency jitter/duplication, loss-free (reports are not retransmitted), non-sparse: every peer of a differing pair gets DesyncDetected, the lowest reported frame lies in [F, F+2*interval] once its confirmed frame has passed F+4*interval, and the event's two checksums are the ones the two games really saved for that frame; no event before F or between peers that agree",
        NDETECT / stride, move |i| detect_case(i * stride, seed), eval_detect, ctx.tier == Tier::Thorough));
    rep.floors.push(("false_alarm".into(), 0.3));
    rep.assumptions = vec!["the corrupted game diverges deterministically (every simulation of a frame >= F produces the same, different state), as a real desync bug would".into()];
    rep
}
