//! C11 - changing input delay at run time keeps all peers in agreement.
use super::common::*;
use super::posthoc::*;
use crate::engine::*;
use crate::gen::*;
use crate::sim::scenario::*;
use proptest::prelude::*;

pub const PROPS: &[&str] = &["C11", "C01", "C03"];

/// structural facts used in signatures
fn facts(sc: &Scenario) -> String {
    let multi = sc.peers.iter().any(|p| p.locals >= 2);
    let spec = !sc.specs.is_empty();
    let early = sc.ops.iter().any(|o| matches!(o, Op::SetDelay { tick, .. } if *tick < 10));
    format!("{}{}{}", if multi { "multi_local," } else { "" }, if spec { "spectator," } else { "" }, if early { "before_first_frame" } else { "" })
}

pub fn eval(sc: &Scenario) -> CaseResult {
    let (out, mut r) = eval_core(sc, PROPS, true);
    if r.violation.is_none() {
        r.violation = spectator_replay(sc, &out).map(|(s, m)| (format!("C11.spectator|{s}"), m));
    }
    if r.violation.is_none() {
        // frames legitimately wait for the local player with the larger delay: at most the spread of
        // the final delays among that peer's local players
        let mut delay: Vec<u8> = out.owners.iter().map(|o| sc.peers[*o].delay).collect();
        let mut ops: Vec<(u32, u8, u8)> = sc.ops.iter().filter_map(|o| if let Op::SetDelay { tick, handle, delay } = o { Some((*tick, *handle, *delay)) } else { None }).collect();
        ops.sort_by_key(|x| x.0);
        for (_, h, d) in ops {
            if (h as usize) < delay.len() {
                delay[h as usize] = d;
            }
        }
        for (i, p) in out.peers.iter().enumerate() {
            let ds: Vec<u8> = p.handles.iter().map(|h| delay[*h]).collect();
            let spread = (ds.iter().max().copied().unwrap_or(0) - ds.iter().min().copied().unwrap_or(0)) as usize;
            if p.alive && p.outgoing_end > spread {
                r.violation = Some(("C11.stranded".into(), format!("peer{i}: {} frames of local inputs are still queued in outgoing_local_inputs after the settle phase (delay spread of its local players: {spread})", p.outgoing_end)));
            }
        }
    }
    if r.violation.is_none() {
        // everybody keeps advancing
        // zero progress only: lockstep over a link slower than a tick legitimately crawls at a few fps
        let (pp, _) = progress_in_tail(&out, 100);
        for (i, d) in pp.iter().enumerate() {
            if *d < 1 && !any_disconnect(&out) {
                r.violation = Some(("C11.stuck".into(), format!("peer{i} advanced {d} frames in the last 100 ticks after the delay changes")));
            }
        }
    }
    if let Some((sig, msg)) = r.violation.take() {
        r.violation = Some((format!("{}|{}", sig, facts(sc)), msg));
    }
    let n = sc.ops.iter().filter(|o| matches!(o, Op::SetDelay { .. })).count();
    r.nontrivial = n > 0 && out.peers.iter().all(|p| p.last_conf > 50);
    if sc.ops.iter().any(|o| matches!(o, Op::SetDelay { tick, .. } if *tick < 10)) {
        r.classes.push("change_before_first_frame");
    }
    // decrease-then-increase within a few frames
    let mut per: std::collections::BTreeMap<u8, Vec<(u32, u8)>> = Default::default();
    for o in &sc.ops {
        if let Op::SetDelay { tick, handle, delay } = o {
            per.entry(*handle).or_default().push((*tick, *delay));
        }
    }
    for v in per.values_mut() {
        v.sort();
        for w in v.windows(3) {
            if w[1].1 < w[0].1 && w[2].1 > w[1].1 && w[2].0 - w[1].0 < 6 {
                r.classes.push("decrease_then_increase_before_drain");
            }
        }
    }
    r.counters.push(("delay_changes", n as u64));
    r
}

pub fn gen(tier: Tier, multi_local: bool, specs: bool) -> BoxedStrategy<Scenario> {
    let mut p = GenParams::default();
    p.ticks = tier.pick((250, 900), (800, 2500));
    p.max_specs = if specs { 2 } else { 0 };
    p.max_locals = if multi_local { 2 } else { 1 };
    p.windows.push((2, 0));
    (scenario(&p), proptest::collection::vec((any::<u16>(), any::<u16>(), 0u8..=6, 0u8..4), 1..=8))
        .prop_map(|(mut sc, changes)| {
            let nh = sc.num_players();
            let mut last_tick = 0u32;
            for (t, h, d, mode) in changes {
                let tick = match mode {
                    0 => (t % 8) as u32,                                             // before / around the first frame
                    1 => last_tick + 1 + (t % 5) as u32,                              // shortly after the previous change
                    _ => 20 + idx(t, sc.ticks.saturating_sub(30).max(1) as usize) as u32,
                };
                last_tick = tick;
                sc.ops.push(Op::SetDelay { tick, handle: idx(h, nh) as u8, delay: d });
            }
            sc
        })
        .boxed()
}

pub fn run_prop(ctx: &Ctx) -> PropReport {
    let mut rep = PropReport::new("C11", "exploration");
    let tier = ctx.tier;
    let rule = "C01 topologies + 1-8 set_input_delay calls (delay 0..=6) on random local players: before/around the first frame, in quick succession (decrease-then-increase before the queue drained), at arbitrary moments incl. while stalled; oracle: the owner's, every remote's and every spectator's inputs for that player equal the reference model (increase repeats the last input for the opened frames, decrease drops submissions until caught up), no panic, nothing stranded in outgoing_local_inputs after settling, everybody keeps advancing; non-trivial = >=1 change applied and >50 frames confirmed everywhere";
    rep.part(|| run_random(ctx, "single_local", rule, || gen(tier, false, false), ctx.tier.pick(4000, 16000), eval));
    rep.part(|| run_random(ctx, "with_spectators", rule, || gen(tier, false, true), ctx.tier.pick(3000, 12000), eval));
    rep.part(|| run_random(ctx, "multi_local", rule, || gen(tier, true, true), ctx.tier.pick(4000, 16000), eval));
    rep.assumptions = vec!["the reference model of the delayed input stream is the documented semantics of set_input_delay".into()];
    rep
}
