//! C02 - the request list of every advance_frame call is executable and frame-consistent.
use super::common::*;
use crate::engine::*;
use crate::gen::*;
use crate::sim::scenario::*;
use proptest::prelude::*;

pub const PROPS: &[&str] = &["C02"];

pub fn eval(sc: &Scenario) -> CaseResult {
    let (out, mut r) = eval_core(sc, PROPS, false);
    let verified: u64 = out.peers.iter().map(|p| p.stats.loads_verified).sum();
    r.nontrivial = verified > 0;
    if sc.sparse && verified > 0 {
        r.classes.push("sparse_load_verified");
    }
    if out.specs.iter().any(|s| s.timeline.len() > 60) {
        r.classes.push("spectator_ring_wrapped");
    }
    r
}

/// stall-heavy variant: one peer is starved by a long outage, timeouts raised so nobody disconnects
pub fn starved(p: &GenParams) -> BoxedStrategy<Scenario> {
    (scenario(p), any::<u16>(), any::<u16>(), 300u32..6000).prop_map(|(mut sc, a, t, len)| {
        sc.timeout_ms = 60_000;
        sc.notify_ms = 30_000;
        let links = all_links(&sc);
        let (from, to) = links[idx(a, links.len())];
        let tick = 40 + idx(t, (sc.ticks.saturating_sub(60)).max(1) as usize) as u32;
        sc.ops.push(Op::Outage { tick, from, to, len_ms: len });
        sc
    }).boxed()
}

/// lockstep sessions driven through advance_frame_with_wait*(): inputs for the current or the next frame
/// arrive while the helper is spinning (latency around one tick), delays 0..=6
pub fn lockstep_wait(p: &GenParams) -> BoxedStrategy<Scenario> {
    (scenario(p), any::<u8>(), 0u16..45).prop_map(|(mut sc, w, lat)| {
        sc.max_pred = 0;
        sc.sparse = false;
        for s in sc.specs.iter_mut() {
            s.window = 0;
        }
        let mask = if w % 2 == 0 { 0xff } else { ((w >> 1) | 1) as u32 };
        for (i, p) in sc.peers.iter_mut().enumerate() {
            p.use_wait = (mask >> (i % 6)) & 1 == 1;
        }
        if w % 4 < 3 {
            // fixed latency near the tick length: packets of the previous round land inside the wait
            sc.links.clear();
            sc.link.lat_min = lat;
            sc.link.lat_max = lat + (w as u16 >> 6);
        }
        sc
    }).boxed()
}

pub fn eval_wait(sc: &Scenario) -> CaseResult {
    let (out, mut r) = eval_core(sc, PROPS, false);
    let mid: u64 = out.peers.iter().map(|p| p.midwait_deliveries).sum();
    let adv: u64 = out.peers.iter().map(|p| p.stats.first_sims).sum();
    r.nontrivial = mid > 0 && adv > 20;
    r.counters.push(("wait_calls_with_a_delivery_after_the_first_poll", mid));
    if mid > 0 {
        r.classes.push("midwait_delivery");
    }
    r
}

pub fn drop_at_threshold_case(i: u64, seed: u64) -> Scenario {
    let r = crate::sim::types::mix(seed ^ 0xd207, i);
    let mut sc = Scenario::basic(r, 3);
    sc.max_pred = [2u8, 3, 4, 6, 8][(r % 5) as usize];
    let d = ((r >> 4) % 2) as u8;
    for p in sc.peers.iter_mut() {
        p.delay = d;
    }
    sc.sched = 0;
    sc.predictor = ((r >> 6) % 2) as u8;
    sc.own_snapshots = (r >> 7) % 4 == 0;
    let lat = 15 + ((r >> 8) % 56) as u16;
    sc.link = crate::sim::net::LinkProfile { loss: 0, dup: 0, lat_min: lat, lat_max: lat };
    sc.notify_ms = 20000;
    sc.timeout_ms = 40000;
    let t0 = 80 + ((r >> 16) % 60) as u32;
    sc.ops.push(Op::Kill { tick: t0, peer: 2 });
    // X's last packets arrive `lat` ms later; the survivors then run window-many frames further and wait
    let wait_from = t0 + (lat as u32 + 15) / 16 + sc.max_pred as u32 + d as u32;
    let t1 = wait_from + 1 + ((r >> 24) % 6) as u32;
    sc.ops.push(Op::Disconnect { tick: t1, peer: 0, handle: 2 });
    sc.ops.push(Op::Disconnect { tick: t1, peer: 1, handle: 2 });
    sc.ticks = t1 + 120;
    sc.settle = 60;
    sc
}

pub fn run(ctx: &Ctx) -> PropReport {
    let mut rep = PropReport::new("C02", "exploration");
    let mut p = GenParams::default();
    // tick rates other than the default 60 fps (the builder's with_fps follows the game's tick rate)
    p.fps = vec![60, 60, 60, 30, 120, 144];
    p.ticks = ctx.tier.pick((200, 900), (1500, 4000));
    p.windows.push((2, 0));
    let rule = "C01's scenario space (plus lockstep and spectators); every request is checked by the strict game while it is executed: Save names the game's frame; Load names an earlier frame whose cell holds exactly what was last saved for it and equals the fold of the current timeline up to that frame; Advance without gaps; afterwards game frame == current_frame() and delta in {0,1}; Save(0) precedes the first simulation of frame 0; spectators: only Advance, count == delta; non-trivial = >=1 Load executed and fully verified";
    rep.part(|| run_random(ctx, "p2p", rule, || scenario(&p), ctx.tier.pick(4000, 16000), eval));
    let mut ps = p.clone();
    ps.outages = 0;
    rep.part(|| run_random(ctx, "starved", "same oracle; one directed link is down for 0.3-6 s with timeouts raised to 60 s so that sessions sit at the prediction limit (stalls) and recover", || starved(&ps), ctx.tier.pick(2000, 8000), eval));
    let seed = ctx.seed;
    rep.part(|| run_enum(ctx, "drops",
        "C07's two-peer drop scenarios (moment of death x lost tail, explicit disconnect_player; rollback, sparse and lockstep, spectators): the resimulation from the cut-off and everything after it must obey the same request contract",
        ctx.tier.pick(3000u64, 20000u64), move |i| {
            if i % 3 == 0 {
                super::c07::api_case(i / 3, seed)
            } else {
                super::c07::death_case((i * 7919) % (super::c07::NBASE * 120), seed, 1, &[0, 2])
            }
        }, eval, false));
    // drops in 3-peer sessions: the survivors sit at the prediction limit (Save of the current frame issued) when the
    // victim is timed out, the drop-only rollback re-simulates up to the current frame, and the other survivor's input
    // for that very frame - still outstanding - is then mispredicted: the next rollback loads the current frame's cell
    // (added after seeded change C02-r9 was missed: no C02 scenario had a drop with another remote still connected)
    rep.part(|| run_enum(ctx, "multi_drop",
        "C04's starved_after_drop scenarios (3 peers, windows {0,1,2,4,8,12}, sparse, delays, 1-2 local players: a peer dies and is timed out by both survivors with the same cut-off, later a survivor's link is cut for a while) and C10's equal-amount two-drop scenarios (4 peers): same request contract",
        ctx.tier.pick(2500u64, 12000u64), move |i| if i % 3 == 2 { super::c10::gossip_case(i / 3, seed) } else { super::c04::after_drop_case(i, seed) }, eval, false));
    // ... and the exact sequence of seeded change C02-r9: X falls silent, A and B run into the prediction limit at frame c
    // (Save(c) issued, call after call), both drop X through the API within a few ticks of each other - before the
    // other's input for c (sent only once the sender can advance again) has arrived -, the drop-only rollback
    // re-simulates up to c, and the first misprediction afterwards is often exactly at c: Load(c)
    rep.part(|| run_enum(ctx, "drop_at_threshold",
        "3 peers, windows {2,3,4,6,8}, delays 0-1, latency 15-70 ms between the survivors: X dies; 1-6 ticks after the survivors have reached the prediction limit both drop X with disconnect_player in the same tick (equal amounts of X's input: same latency from X) and play on together: same request contract - in particular the cell of the frame they waited at must hold the re-simulated state when a later rollback loads it; non-trivial = both dropped X and some rollback happened afterwards",
        ctx.tier.pick(3000u64, 15000u64), move |i| drop_at_threshold_case(i, seed), eval, false));
    let mut pw = p.clone();
    pw.windows = vec![(1, 0)];
    rep.part(|| run_random(ctx, "lockstep_wait", "same oracle (plus: an Err result never moves current_frame()); lockstep sessions in which all or a seeded subset of the peers call advance_frame_with_wait / _with_wait_timeout(3 ms) / (0) in rotation under an auto-ticking clock, link latency 0-45 ms so that the missing input - or the input of the next frame - arrives while the helper is spinning; non-trivial = a packet was delivered during a wait call after its first poll", || lockstep_wait(&pw), ctx.tier.pick(2500, 10000), eval_wait));
    rep.part(|| super::c13::c02_part(ctx));
    rep.floors.push(("p2p".into(), 0.3));
    rep.assumptions = vec!["the harness game executes requests strictly in order and is itself deterministic".into()];
    rep
}
