//! C02 - the request list of every advance_frame call is executable and frame-consistent.
use super::common::*;
use crate::engine::*;
use crate::gen::*;
use crate::sim::scenario::*;
use proptest::prelude::*;

pub const PROPS: &[&str] = &["C02"];

pub fn eval(sc: &Scenario) -> CaseResult {
    let (out, mut r) = eval_core(sc, PROPS, false);
    let verified: u64 = out.peers.iter().map(|p| p.stats.loads_verified).sum();
    r.nontrivial = verified > 0;
    if sc.sparse && verified > 0 {
        r.classes.push("sparse_load_verified");
    }
    if out.specs.iter().any(|s| s.timeline.len() > 60) {
        r.classes.push("spectator_ring_wrapped");
    }
    r
}

/// stall-heavy variant: one peer is starved by a long outage, timeouts raised so nobody disconnects
pub fn starved(p: &GenParams) -> BoxedStrategy<Scenario> {
    (scenario(p), any::<u16>(), any::<u16>(), 300u32..6000).prop_map(|(mut sc, a, t, len)| {
        sc.timeout_ms = 60_000;
        sc.notify_ms = 30_000;
        let links = all_links(&sc);
        let (from, to) = links[idx(a, links.len())];
        let tick = 40 + idx(t, (sc.ticks.saturating_sub(60)).max(1) as usize) as u32;
        sc.ops.push(Op::Outage { tick, from, to, len_ms: len });
        sc
    }).boxed()
}

pub fn run(ctx: &Ctx) -> PropReport {
    let mut rep = PropReport::new("C02", "exploration");
    let mut p = GenParams::default();
    p.ticks = ctx.tier.pick((200, 900), (1500, 4000));
    p.windows.push((2, 0));
    let rule = "C01's scenario space (plus lockstep and spectators); every request is checked by the strict game while it is executed: Save names the game's frame; Load names an earlier frame whose cell holds exactly what was last saved for it and equals the fold of the current timeline up to that frame; Advance without gaps; afterwards game frame == current_frame() and delta in {0,1}; Save(0) precedes the first simulation of frame 0; spectators: only Advance, count == delta; non-trivial = >=1 Load executed and fully verified";
    rep.part(|| run_random(ctx, "p2p", rule, || scenario(&p), ctx.tier.pick(4000, 16000), eval));
    let mut ps = p.clone();
    ps.outages = 0;
    rep.part(|| run_random(ctx, "starved", "same oracle; one directed link is down for 0.3-6 s with timeouts raised to 60 s so that sessions sit at the prediction limit (stalls) and recover", || starved(&ps), ctx.tier.pick(2000, 8000), eval));
    let seed = ctx.seed;
    rep.part(|| run_enum(ctx, "drops",
        "C07's two-peer drop scenarios (moment of death x lost tail, explicit disconnect_player; rollback, sparse and lockstep, spectators): the resimulation from the cut-off and everything after it must obey the same request contract",
        ctx.tier.pick(3000u64, 20000u64), move |i| {
            if i % 3 == 0 {
                super::c07::api_case(i / 3, seed)
            } else {
                super::c07::death_case((i * 7919) % (super::c07::NBASE * 120), seed, 1, &[0, 2])
            }
        }, eval, false));
    rep.part(|| super::c13::c02_part(ctx));
    rep.floors.push(("p2p".into(), 0.3));
    rep.assumptions = vec!["the harness game executes requests strictly in order and is itself deterministic".into()];
    rep
}
