//! Oracles and classifiers shared by the simulation properties.
use crate::engine::CaseResult;
use crate::sim::scenario::*;
use crate::sim::types::*;
use crate::sim::wire::Class;
use crate::sim::world::*;

pub fn first_violation(out: &Outcome, props: &[&str]) -> Option<(String, String)> {
    out.viols
        .iter()
        .find(|v| props.contains(&v.prop) || v.prop == "PANIC" || v.prop == "SETUP")
        .map(|v| (v.clause.clone(), format!("[{} tick {}] {}", v.node, v.tick, v.msg)))
}

pub fn has_planned_disconnect(sc: &Scenario) -> bool {
    sc.ops.iter().any(|o| matches!(o, Op::Kill { .. } | Op::Disconnect { .. } | Op::LinkDown { .. }))
}

pub fn any_disconnect(out: &Outcome) -> bool {
    out.peers.iter().any(|p| p.cs.iter().any(|c| c.0) || p.events.iter().any(|e| matches!(e.1, Ev::Disconnected { .. })))
        || out.specs.iter().any(|s| s.events.iter().any(|e| matches!(e.1, Ev::Disconnected { .. })))
}

/// serial replay of the true inputs: state hash after frame f, for f in 0..n
pub fn serial_replay(truth: &[Vec<u32>], n: usize) -> Vec<u64> {
    let mut h = HASH0;
    let mut v = Vec::with_capacity(n);
    for f in 0..n {
        let row: Vec<(u32, u8)> = truth.iter().map(|t| (t[f], ST_CONF)).collect();
        h = step_hash(h, f as i32, &row);
        v.push(h);
    }
    v
}

/// C01 end-of-case oracle: every live peer's state at every mutually confirmed frame equals
/// the serial replay of the true inputs and every other peer's state.
pub fn end_state_c01(_sc: &Scenario, out: &Outcome) -> Option<(String, String)> {
    if any_disconnect(out) {
        return None; // out of C01's domain (judged by C07/C10)
    }
    let live: Vec<usize> = (0..out.peers.len()).filter(|&p| out.peers[p].alive && out.peers[p].running).collect();
    if live.is_empty() {
        return None;
    }
    let minconf = live.iter().map(|&p| out.peers[p].last_conf.min(out.peers[p].after.len() as i32 - 1)).min().unwrap_or(-1);
    if minconf < 0 {
        return None;
    }
    let n = (minconf + 1) as usize;
    if out.truth.iter().any(|t| t.len() < n) {
        return Some(("C01.truth_short".into(), format!("confirmed frame {} but a player only submitted {} inputs", minconf, out.truth.iter().map(|t| t.len()).min().unwrap_or(0))));
    }
    let serial = serial_replay(&out.truth, n);
    for &p in &live {
        for f in 0..n {
            if out.peers[p].after[f] != serial[f] {
                return Some((
                    "C01.state_vs_serial".into(),
                    format!(
                        "peer {} state after confirmed frame {} differs from the serial replay of the true inputs; last simulation used {:?}, true inputs {:?}",
                        p,
                        f,
                        out.peers[p].timeline[f],
                        out.truth.iter().map(|t| t[f]).collect::<Vec<_>>()
                    ),
                ));
            }
        }
    }
    None
}

pub fn base_classes(sc: &Scenario, out: &Outcome) -> Vec<&'static str> {
    let mut c = Vec::new();
    if out.total_rollbacks() > 0 {
        c.push("rollbacks>0");
    }
    if sc.sparse {
        c.push("sparse");
    }
    if sc.max_pred == 0 {
        c.push("lockstep");
    }
    if sc.own_snapshots {
        c.push("game_keeps_own_snapshots");
    }
    if sc.weak_checksum {
        c.push("one_bit_checksums");
    }
    if sc.peers.iter().any(|p| p.no_checksum) {
        c.push("a_game_without_checksums");
    }
    if sc.resubmit_varies {
        c.push("stalled_frames_resubmitted_with_other_values");
    }
    if sc.double_submit {
        c.push("inputs_registered_twice_per_tick");
    }
    if sc.fps != 60 {
        c.push("fps!=60");
    }
    if sc.max_pred == 1 {
        c.push("window1");
    }
    if sc.peers.len() >= 3 {
        c.push("3+peers");
    }
    if sc.peers.iter().any(|p| p.locals >= 2) {
        c.push("2locals");
    }
    if sc.peers.iter().any(|p| p.delay > 0) {
        c.push("delay>0");
    }
    if !sc.specs.is_empty() {
        c.push("spectators");
    }
    if sc.link.loss > 0 {
        c.push("loss>0");
    }
    if sc.link.loss >= 40 {
        c.push("loss40");
    }
    if out.net.duplicated > 0 {
        c.push("dup");
    }
    if sc.link.lat_max > sc.link.lat_min {
        c.push("reorder");
    }
    if sc.link.lat_min as u64 > 1000 / sc.fps.max(1) as u64 {
        c.push("latency>tick");
    }
    if sc.ops.iter().any(|o| matches!(o, Op::Outage { .. })) {
        c.push("outage");
    }
    if sc.ops.iter().any(|o| matches!(o, Op::Pause { .. })) {
        c.push("pause");
    }
    if sc.peers.iter().any(|p| p.slow > 0) {
        c.push("uneven_speed");
    }
    if sc.predictor == 1 {
        c.push("predict_default");
    }
    if sc.predictor == 2 {
        c.push("custom_predictor(x|1)");
    }
    if sc.wide {
        c.push("wide_input");
    }
    if sc.desync > 0 {
        c.push("desync_on");
    }
    if out.peers.iter().any(|p| p.last_conf >= 150) {
        c.push("input_ring_wrapped");
    }
    if out.peers.iter().any(|p| p.stalls > 0) {
        c.push("stalled");
    }
    if out.peers.iter().any(|p| p.gap_eq > 0) {
        c.push("window_reached");
    }
    if out.peers.iter().any(|p| p.sticky2 > 0) {
        c.push("sticky_prediction>=2");
    }
    if out.peers.iter().any(|p| p.events.iter().any(|e| matches!(e.1, Ev::Interrupted { .. }))) {
        c.push("interrupted");
    }
    if any_disconnect(out) && !has_planned_disconnect(sc) {
        c.push("unplanned_disconnect");
    }
    c
}

pub fn base_counters(out: &Outcome) -> Vec<(&'static str, u64)> {
    let mut v = Vec::new();
    v.push(("frames_first_simulated", out.peers.iter().map(|p| p.stats.first_sims).sum()));
    v.push(("frames_resimulated", out.peers.iter().map(|p| p.stats.resims).sum()));
    v.push(("rollbacks", out.peers.iter().map(|p| p.stats.loads).sum()));
    v.push(("loads_verified", out.peers.iter().map(|p| p.stats.loads_verified).sum()));
    v.push(("saves", out.peers.iter().map(|p| p.stats.saves).sum()));
    v.push(("max_rollback_depth", out.peers.iter().map(|p| p.stats.max_rollback.max(0) as u64).max().unwrap_or(0)));
    v.push(("packets_sent", out.net.sent.iter().sum()));
    v.push(("packets_dropped", out.net.dropped.iter().sum()));
    v.push(("packets_duplicated", out.net.duplicated));
    v.push(("input_packets_dropped", out.net.dropped[Class::Input as usize]));
    v.push(("ack_packets_dropped", out.net.dropped[Class::InputAck as usize]));
    v.push(("confirmed_frames_compared", out.peers.iter().map(|p| (p.last_conf + 1).max(0) as u64).sum()));
    v.push(("spectator_frames", out.specs.iter().map(|s| s.timeline.len() as u64).sum()));
    v.push(("stalled_calls", out.peers.iter().map(|p| p.stalls).sum()));
    v.push(("advance_calls", out.peers.iter().map(|p| p.ok_calls).sum()));
    v
}

pub fn summary(sc: &Scenario, out: &Outcome) -> String {
    format!(
        "peers={} players={} specs={} window={} sparse={} ticks={} frames={:?} confirmed={:?} rollbacks={} max_depth={} dropped={}",
        sc.peers.len(),
        sc.num_players(),
        sc.specs.len(),
        sc.max_pred,
        sc.sparse,
        out.ticks_run,
        out.peers.iter().map(|p| p.current_frame).collect::<Vec<_>>(),
        out.peers.iter().map(|p| p.last_conf).collect::<Vec<_>>(),
        out.total_rollbacks(),
        out.peers.iter().map(|p| p.stats.max_rollback).max().unwrap_or(0),
        out.net.dropped.iter().sum::<u64>(),
    )
}

/// evaluates a scenario for the "core" properties; `props` selects which on-line clauses count
pub fn eval_core(sc: &Scenario, props: &[&str], end_c01: bool) -> (Outcome, CaseResult) {
    let out = run(sc, &RunOpts::default());
    let mut r = CaseResult::default();
    r.violation = first_violation(&out, props);
    if r.violation.is_none() && end_c01 {
        r.violation = end_state_c01(sc, &out);
    }
    r.classes = base_classes(sc, &out);
    r.counters = base_counters(&out);
    r.summary = summary(sc, &out);
    (out, r)
}
