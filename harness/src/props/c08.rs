//! C08 - malformed or foreign packets are discarded without panic or effect.
use super::common::*;
use super::posthoc::progress_in_tail;
use crate::engine::*;
use crate::gen::*;
use crate::sim::net::{ref_rle_decode, LinkProfile};
use crate::sim::scenario::*;
use crate::sim::types::*;
use crate::sim::world::*;
use proptest::prelude::*;

pub const PROPS: &[&str] = &["C08", "C01", "C03"];

/// What the property protects: the inputs the session delivers (final timeline and states of every
/// frame confirmed in both runs), its connection state (per-address event sequence, disconnect
/// flags, Running) - not the exact timing of retransmissions or rollbacks.
fn fingerprint(o: &Outcome, upto: &[i32], keep_times: bool) -> Vec<String> {
    let mut v = Vec::new();
    for (i, p) in o.peers.iter().enumerate() {
        let n = (upto[i] + 1).max(0) as usize;
        let n = n.min(p.timeline.len());
        let mut h = 0u64;
        for f in 0..n {
            for (val, st) in &p.timeline[f] {
                h = mix(h, (*val as u64) << 1 | (*st == ST_DISC) as u64);
            }
            h = mix(h, p.after[f]);
        }
        v.push(format!("peer{i} inputs_and_states_up_to_frame_{}={:x} disconnected={:?} running={}", upto[i], h, p.cs.iter().map(|c| c.0).collect::<Vec<_>>(), p.running));
        // per remote address (the order of events of different addresses raised by one poll is unspecified)
        // connection-state events keep their instants: a foreign packet must not move a timeout
        let mut by: std::collections::BTreeMap<Option<u8>, Vec<(u64, &Ev)>> = Default::default();
        for e in &p.events {
            if !matches!(e.1, Ev::Wait { .. }) {
                // (only when every forged packet of the case is foreign: a malformed packet carrying the
                // peer's own magic may legitimately shift retransmission timing, and with it these instants)
                let t = if keep_times && matches!(e.1, Ev::Interrupted { .. } | Ev::Resumed { .. } | Ev::Disconnected { .. }) { e.0 } else { 0 };
                by.entry(e.1.addr()).or_default().push((t, &e.1));
            }
        }
        for (a, evs) in by {
            v.push(format!("peer{i} events[{a:?}]={:?}", evs));
        }
    }
    for (i, s) in o.specs.iter().enumerate() {
        v.push(format!("spec{i} events={:?}", s.events.iter().map(|e| &e.1).collect::<Vec<_>>()));
    }
    v
}

/// does this payload decode (reference decoder) into frames (possibly none) that all have the size a real
/// packet for `players` players would have? Then it is a *valid* encoding, not a malformed one.
pub fn payload_is_valid(bytes: &[u8], frame_size: usize) -> bool {
    let Some(raw) = ref_rle_decode(bytes, 1 << 22) else { return false };
    let mut pos = 0;
    let mut n = 0;
    while pos < raw.len() {
        if pos + 2 > raw.len() {
            return false;
        }
        let len = u16::from_le_bytes([raw[pos], raw[pos + 1]]) as usize;
        pos += 2;
        if pos + len > raw.len() || len != frame_size {
            return false;
        }
        pos += len;
        n += 1;
    }
    // zero frames: a well-formed (if never produced) packet that only carries an ack
    let _ = n;
    true
}

/// is the payload a structurally valid encoding (RLE layer and length framing), whatever the frame sizes?
/// Whether the frames have the right size can only be judged by a receiver that holds the reference input
/// the packet was encoded against; one that does not must still act on the acknowledgement and the status
/// table of a well-formed packet.
pub fn payload_structure_ok(bytes: &[u8]) -> bool {
    let Some(raw) = ref_rle_decode(bytes, 1 << 22) else { return false };
    let mut pos = 0;
    while pos < raw.len() {
        if pos + 2 > raw.len() {
            return false;
        }
        let len = u16::from_le_bytes([raw[pos], raw[pos + 1]]) as usize;
        pos += 2;
        if pos + len > raw.len() {
            return false;
        }
        pos += len;
    }
    true
}

fn frame_size(sc: &Scenario, from_addr: u8, to_addr: u8) -> usize {
    let per = if sc.wide { 4 } else { 1 };
    let idx = (from_addr as usize).wrapping_sub(1);
    if to_addr > 100 {
        // host -> spectator packets carry every player's input
        per * sc.num_players()
    } else if idx < sc.peers.len() {
        per * sc.peers[idx].locals as usize
    } else {
        per * sc.num_players()
    }
}

/// forged packets that are, by construction, indistinguishable from valid traffic are removed
pub fn sanitize(sc: &mut Scenario) -> usize {
    let mut removed = 0;
    // wrong-size frames whose size happens to be the right one are real packets
    let same: Vec<usize> = sc.ops.iter().enumerate().filter_map(|(i, o)| if let Op::Forge { kind: 3, a, from, to, .. } = o { (*a as usize == frame_size(sc, *from, *to)).then_some(i) } else { None }).collect();
    for i in same.into_iter().rev() {
        sc.ops.remove(i);
        removed += 1;
    }
    let fs: Vec<(usize, bool)> = sc
        .ops
        .iter()
        .enumerate()
        .filter_map(|(i, o)| {
            if let Op::Forge { kind, bytes, from, to, .. } = o {
                if *kind == 2 || *kind == 6 {
                    return Some((i, payload_is_valid(bytes, frame_size(sc, *from, *to))));
                }
                if *kind == 12 || *kind == 13 {
                    // these carry a forged status table / acknowledgement: only payloads that NO receiver can
                    // take for an encoding make the packet malformed beyond doubt
                    return Some((i, !bytes.is_empty() && payload_structure_ok(bytes)));
                }
            }
            None
        })
        .collect();
    for (i, valid) in fs.into_iter().rev() {
        // kind 6 (foreign magic) must be dropped even when the payload is valid; kind 2 with a valid
        // payload is simply a real packet
        if valid {
            if let Op::Forge { kind: 2 | 12 | 13, .. } = sc.ops[i] {
                sc.ops.remove(i);
                removed += 1;
            }
        }
    }
    removed
}

pub fn twin_of(sc: &Scenario) -> Scenario {
    let mut t = sc.clone();
    t.ops.retain(|o| !matches!(o, Op::Forge { .. }));
    t
}

pub fn eval(sc0: &Scenario) -> CaseResult {
    let mut sc = sc0.clone();
    let removed = sanitize(&mut sc);
    let out = run(&sc, &RunOpts::default());
    let mut r = CaseResult::default();
    r.classes = base_classes(&sc, &out);
    r.counters = base_counters(&out);
    r.summary = summary(&sc, &out);
    r.violation = first_violation(&out, PROPS);
    let deterministic_net = sc.link.loss == 0 && sc.link.dup == 0 && sc.link.lat_min == sc.link.lat_max && sc.links.is_empty();
    if r.violation.is_none() && !deterministic_net {
        // "valid traffic continues to be processed correctly afterwards": a session that makes no progress at all
        // at the end of the clean settle phase although its twin without the forged packets does, was wedged by them
        let (pp, sp) = progress_in_tail(&out, 90);
        // (a session that was legitimately cut off - 128-pending cap on a lossy spectator link, timeout - or a
        // spectator that fell more than its 60-frame buffer behind is not "wedged by the packet": under loss the
        // two runs are different random trajectories)
        if !any_disconnect(&out) && (pp.iter().zip(out.peers.iter()).any(|(d, p)| p.alive && *d <= 0) || sp.iter().zip(out.specs.iter()).any(|(d, s)| *d <= 0 && s.too_far == 0)) {
            let t = run(&twin_of(&sc), &RunOpts::default());
            let (tp, ts) = progress_in_tail(&t, 90);
            for i in 0..pp.len() {
                if out.peers[i].alive && pp[i] <= 0 && tp[i] >= 3 && !any_disconnect(&t) {
                    r.violation = Some(("C08.wedged_by_forged_packet".into(), format!("peer{i} advanced {} frames in the last 90 ticks (clean network) but {} in the twin run without the forged packets; forged kinds {:?}", pp[i], tp[i], sc.ops.iter().filter_map(|o| if let Op::Forge { kind, .. } = o { Some(*kind) } else { None }).collect::<Vec<_>>())));
                }
            }
            for i in 0..sp.len() {
                if sp[i] <= 0 && out.specs[i].too_far == 0 && ts[i] >= 3 && !any_disconnect(&t) && r.violation.is_none() {
                    r.violation = Some(("C08.wedged_by_forged_packet".into(), format!("spec{i} advanced {} frames in the last 90 ticks but {} in the twin run without the forged packets", sp[i], ts[i])));
                }
            }
        }
    }
    if r.violation.is_none() && deterministic_net {
        let t = run(&twin_of(&sc), &RunOpts::default());
        // frames confirmed and simulated in both runs; when a player was dropped, only up to the earlier of
        // the two cut-offs (the cut-off itself depends on packet timing, which forged packets may shift;
        // bogus inputs beyond it are caught by the C01/C03 clauses against the true input stream)
        let upto: Vec<i32> = out
            .peers
            .iter()
            .zip(t.peers.iter())
            .map(|(x, y)| {
                let mut u = x.last_conf.min(y.last_conf).min(x.timeline.len() as i32 - 1).min(y.timeline.len() as i32 - 1);
                for c in x.cs.iter().chain(y.cs.iter()) {
                    if c.0 {
                        u = u.min(c.1);
                    }
                }
                u
            })
            .collect();
        let keep_times = !sc.ops.iter().any(|o| matches!(o, Op::Forge { kind, .. } if *kind <= 3 || *kind == 12 || *kind == 13));
        if keep_times {
            r.classes.push("foreign_only(event_instants_compared)");
        }
        let (a, b) = (fingerprint(&out, &upto, keep_times), fingerprint(&t, &upto, keep_times));
        // spectators replay what their host confirmed: compare the common prefix
        let mut spec_diff = None;
        for (i, (x, y)) in out.specs.iter().zip(t.specs.iter()).enumerate() {
            // only up to what the host confirmed in both runs / the earlier cut-off (same bound as for the host)
            let n = x.timeline.len().min(y.timeline.len()).min((upto[x.host] + 1).max(0) as usize);
            if x.timeline[..n] != y.timeline[..n] {
                spec_diff = Some(i);
            }
        }
        if a != b || spec_diff.is_some() {
            let i = (0..a.len().max(b.len())).find(|i| a.get(*i) != b.get(*i)).unwrap_or(0);
            let kinds: Vec<u8> = sc.ops.iter().filter_map(|o| if let Op::Forge { kind, .. } = o { Some(*kind) } else { None }).collect();
            let mut ks = kinds.clone();
            ks.sort();
            ks.dedup();
            r.violation = Some((
                format!("C08.effect|kinds{:?}", ks),
                format!("session observables differ from the run without the forged packets (forged kinds {:?}): with: {} / without: {}", kinds, a.get(i).map(|s| &s[..s.len().min(300)]).unwrap_or(""), b.get(i).map(|s| &s[..s.len().min(300)]).unwrap_or("")),
            ));
        }
        r.classes.push("twin_compared");
    }
    if r.violation.is_none() {
        r.violation = end_state_c01(&sc, &out);
    }
    let n_forged = out.net.forged;
    r.nontrivial = n_forged > 0;
    for o in &sc.ops {
        if let Op::Forge { kind, tick, .. } = o {
            r.classes.push(match kind {
                0 => "wrong_status_count",
                1 => "negative_start_frame",
                2 => "garbage_payload",
                3 => "wrong_frame_size",
                4 => "unknown_address",
                5 => "foreign_magic_copy",
                6 => "foreign_magic_stale_session",
                7 => "foreign_magic_any_class",
                12 => "malformed_payload_with_disconnect_flag",
                13 => "malformed_payload_with_ack_ahead",
                10 => "foreign_sync_request",
                11 => "foreign_sync_reply",
                _ => "other",
            });
            if *tick < 25 {
                r.classes.push("during_handshake");
            }
        }
    }
    if sc.ops.iter().any(|o| matches!(o, Op::Kill { .. })) {
        r.classes.push("after_disconnect");
    }
    r.classes.sort();
    r.classes.dedup();
    r.counters.push(("forged_packets_injected", n_forged));
    r.counters.push(("accidentally_valid_payloads_removed", removed as u64));
    r
}

/// the valid three-frame payload a stale session's first input packet carries on the link from -> to
pub fn stale_first_packet(sc: &Scenario, from: u8, to: u8) -> Vec<u8> {
    payload_frames(3, frame_size(sc, from, to), 3)
}

fn garbage() -> BoxedStrategy<Vec<u8>> {
    prop_oneof![
        3 => proptest::collection::vec(any::<u8>(), 0..12),
        2 => proptest::collection::vec(prop_oneof![Just(0x80u8), Just(0xff), Just(0x01), Just(0x03), Just(0x00), Just(0x7f), any::<u8>()], 0..16),
        // valid RLE around a malformed delta layer / wrong-size frames
        2 => (0usize..6, 0usize..9, any::<u8>()).prop_map(|(n, len, fill)| payload_frames(n, len, fill)),
        1 => (any::<u16>(), 0usize..6).prop_map(|(l, n)| { let mut raw = l.to_le_bytes().to_vec(); raw.extend(std::iter::repeat(7u8).take(n)); rle_literal(&raw) }),
    ]
    .boxed()
}

pub fn gen(tier: Tier, lossy: bool) -> BoxedStrategy<Scenario> {
    let mut p = GenParams::default();
    p.max_peers = 3;
    p.max_specs = 1;
    p.ticks = tier.pick((150, 500), (300, 1200));
    p.outages = 0;
    p.pauses = 0;
    p.timeouts = vec![(500, 2000)];
    if !lossy {
        p.loss = vec![0];
        p.dup = vec![0];
        p.lat_extra = vec![0];
        p.lat_min = vec![0, 10, 40];
        p.slow = vec![0, 10];
    }
    let forge = (any::<u16>(), any::<u16>(), 0u8..12, -3i32..8, -3i32..40, garbage(), 0u8..4);
    (scenario(&p), proptest::collection::vec(forge, 1..24), any::<u16>(), any::<u8>())
        .prop_map(|(mut sc, forges, kt, kill)| {
            let links = all_links(&sc);
            // a third of the cases: a peer dies, forged packets keep coming from its address afterwards
            let dead = if kill % 3 == 0 && sc.peers.len() == 2 && sc.max_pred > 0 {
                let t = 60 + idx(kt, (sc.ticks / 2).max(1) as usize) as u32;
                sc.ops.push(Op::Kill { tick: t, peer: 1 });
                sc.settle = 420;
                Some(t)
            } else {
                None
            };
            let foreign_only = kill % 2 == 1;
            for (l, t, kind, a, b, bytes, phase) in forges {
                // kinds 8 and 9 of this generator are the foreign handshake packets (world kinds 10, 11)
                let kind = if kind >= 8 { kind + 2 } else { kind };
                // half of the cases consist of foreign packets only (then event instants are compared too)
                let own_magic = |k: u8| k <= 3 || k == 12 || k == 13;
                let kind = if foreign_only && own_magic(kind) { [4u8, 5, 7, 10, 11, 6][(kind as usize + t as usize) % 6] } else { kind };
                let (from, to) = links[idx(l, links.len())];
                let tick = match (phase, dead) {
                    (0, _) => 1 + (t % 24) as u32,                                              // handshake
                    (1, Some(d)) if !own_magic(kind) => d + 2 + (t % 120) as u32,                      // foreign packet while the dead peer's timeout is pending
                    (1, Some(d)) => d + 260 + (t % 60) as u32,                                  // after the disconnect
                    _ => 25 + idx(t, sc.ticks.saturating_sub(26).max(1) as usize) as u32,       // running
                };
                // a malformed packet that carries the peer's own magic and address still proves that
                // the peer is alive (it refreshes the liveness timer by design); while a dead peer's
                // timeout is pending only foreign packets are injected, which must not refresh anything
                let tick = match dead {
                    Some(d) if own_magic(kind) && tick > d.saturating_sub(2) && tick <= d + 260 => d + 261 + (t % 50) as u32,
                    _ => tick,
                };
                let from_addr = if kind == 4 { 200 + (a.unsigned_abs() % 20) as u8 } else { from };
                let (a, b) = match kind {
                    0 => (a.rem_euclid(sc.num_players() as i32 + 3), b),
                    2 => (a.clamp(-2, 2), b),
                    3 => (b.rem_euclid(12), 1 + a.rem_euclid(4)),
                    4 => (a, from as i32),
                    5 => (1 + a.rem_euclid(5), b - 3),
                    _ => (1 + a.rem_euclid(7), b),
                };
                // kind 6 carries a VALID payload of three frames (a stale session's first packet)
                let bytes = if kind == 6 { payload_frames(3, frame_size(&sc, from, to), 3) } else { bytes };
                sc.ops.push(Op::Forge { tick, to, from: from_addr, kind, a, b, bytes });
            }
            sc
        })
        .boxed()
}

/// exhaustive payload sweep: payloads number [i*256, i*256+256) injected one per tick into a live
/// running endpoint as the `bytes` of an otherwise well-formed, current input packet
pub fn sweep_case(i: u64, seed: u64) -> Scenario {
    let wide = i % 2 == 1;
    let block = i / 2;
    let mut sc = Scenario::basic(mix(seed ^ 0xc08, block % 7), 2);
    sc.wide = wide;
    sc.max_pred = [8u8, 0, 2][(block % 3) as usize];
    sc.sched = 0;
    sc.link = LinkProfile { loss: 0, dup: 0, lat_min: 0, lat_max: 0 };
    sc.ticks = 30 + 256 + 10;
    sc.settle = 30;
    for j in 0..256u64 {
        let bytes = super::c14::exh_bytes(block * 256 + j);
        sc.ops.push(Op::Forge { tick: 30 + j as u32, to: 1, from: 2, kind: 2, a: 0, b: 0, bytes });
    }
    sc
}

pub fn run_prop(ctx: &Ctx) -> PropReport {
    let mut rep = PropReport::new("C08", "exploration");
    let tier = ctx.tier;
    let seed = ctx.seed;
    rep.part(|| run_random(ctx, "forged_twin",
        "2-3 peers (+spectator) on a loss-free fixed-latency network with 1-24 forged packets at arbitrary ticks of every protocol state (handshake, running, after a peer died): copies of the last real input packet with a wrong number of connection statuses (0..n+2), a negative start frame, garbage / structured-malformed payloads, frames of the wrong size, real packets re-sent from unknown addresses, foreign magic on current packets, a foreign-magic 'stale session' first packet, foreign magic on any message class, another session's SyncRequest/SyncReply from the peer's address (also while a dead peer's timeout is pending); oracle: no panic and the delivered inputs and states of every frame confirmed in both runs, the per-address event sequences, the disconnect flags and the spectators' replayed frames identical to the twin run without the forged packets; payloads that the reference decoder recognises as valid right-size encodings are removed (counted); non-trivial = >=1 forged packet injected",
        || gen(tier, false), ctx.tier.pick(6000, 30000), eval));
    rep.part(|| run_random(ctx, "forged_lossy",
        "the same forged packets interleaved with lossy/duplicating/reordering valid traffic: no panic, C01/C03 clauses and the final serial-replay comparison keep holding, and nobody is wedged: a session with zero progress at the end of the clean settle phase whose twin without the forged packets does progress is a violation (valid traffic continues to be processed correctly); malformed copies of real packets also carry acknowledgement numbers ahead of the truth",
        || gen(tier, true), ctx.tier.pick(4000, 20000), eval));
    let maxlen = ctx.tier.pick(2u32, 3u32);
    let n = super::c14::exh_count(maxlen);
    let blocks = (n + 255) / 256;
    rep.part(|| run_enum(ctx, "payload_sweep",
        "bounded-exhaustive: every byte string of length <= 2 (quick) / <= 3 (thorough) injected as the payload of an otherwise well-formed current input packet into a live running endpoint (1-byte and 4-byte input types, windows 8/0/2), 256 payloads per simulated session, compared with the twin run",
        blocks * 2, move |i| sweep_case(i, seed), eval, true));
    // "never panics, aborts or allocates unboundedly" for any byte string as payload: the payload goes
    // straight into the codec's decode entry point, which is swept in supervised child processes with the
    // counting allocator (same machinery as C14, a different seed stream)
    rep.part(|| super::c14::decode_sweep(ctx, "payload_alloc",
        "indexed random/mutated payloads (1-24 raw bytes biased to varint continuation and run headers, and mutations of valid encodings) decoded by the real decode entry point in child processes under RLIMIT_AS: no panic, no abort, peak allocation <= 4 x 128 x 65537 bytes",
        "rand", ctx.seed ^ 0xc08, ctx.tier.pick(6_000_000, 60_000_000), 1 << 15, false));
    rep.floors.push(("forged_twin".into(), 0.5));
    rep.assumptions = vec![
        "packets are forged by re-serialising real messages through a mirror of ggrs::Message's serde shape".into(),
        "a payload that is a valid encoding of right-size frames is indistinguishable from real traffic and is excluded from the 'no effect' claim by an independent reference decoder".into(),
    ];
    rep
}
