//! C05 - transient network faults never wedge a session.
use super::common::*;
use super::posthoc::*;
use crate::engine::*;
use crate::gen::*;
use crate::sim::net::{Fault, LinkProfile};
use crate::sim::scenario::*;
use crate::sim::types::*;
use crate::sim::wire::Class;
use crate::sim::world::*;
use proptest::prelude::*;

pub const PROPS: &[&str] = &["C05"];

/// bounded liveness under the virtual clock: after the faults end, every session advances
pub fn liveness(sc: &Scenario, out: &Outcome) -> Option<(String, String)> {
    // all sessions running
    for (i, p) in out.peers.iter().enumerate() {
        if p.alive && !p.running {
            return Some(("C05.handshake_stuck".into(), format!("peer{i} never reached Running although packets get through ({} ms simulated)", out.end_ms - out.t0_ms)));
        }
    }
    for (i, s) in out.specs.iter().enumerate() {
        if !s.running {
            return Some(("C05.handshake_stuck".into(), format!("spec{i} never reached Running ({} ms simulated)", out.end_ms - out.t0_ms)));
        }
    }
    // no Disconnected event anywhere
    for (name, _, evs, _) in sessions(out) {
        if let Some(e) = evs.iter().find(|e| matches!(e.1, Ev::Disconnected { .. })) {
            return Some(("C05.disconnected".into(), format!("{name}: {:?} at {} ms although every fault ended before the disconnect timeout", e.1, e.0)));
        }
    }
    // progress in the last 3 s of the clean phase
    let tail = (3000 / (1000 / sc.fps.max(1) as u32).max(1)).min(sc.settle.saturating_sub(10));
    let (pp, sp) = progress_in_tail(out, tail);
    for (i, d) in pp.iter().enumerate() {
        if out.peers[i].alive && *d < 3 {
            return Some(("C05.wedged_player".into(), format!("peer{i} advanced {d} frames in the last {tail} ticks of a clean network (frame {}, confirmed {})", out.peers[i].current_frame, out.peers[i].last_conf)));
        }
    }
    for (i, d) in sp.iter().enumerate() {
        if out.specs[i].too_far == 0 && *d < 3 {
            return Some((
                format!("C05.wedged_spectator|window{}", if sc.specs[i].window == 0 { "0" } else { ">0" }),
                format!("spec{i} (builder window {}) advanced {d} frames in the last {tail} ticks of a clean network (frame {}, host frame {})", sc.specs[i].window, out.specs[i].current_frame, out.peers[out.specs[i].host].current_frame),
            ));
        }
    }
    None
}

pub fn eval(sc: &Scenario) -> CaseResult {
    let (out, mut r) = eval_core(sc, &["C05", "C01", "C02", "C03"], true);
    if r.violation.is_none() {
        r.violation = liveness(sc, &out);
    }
    if r.violation.is_none() {
        r.violation = spectator_replay(sc, &out).map(|(s, m)| (format!("C05.stream|{s}"), m));
    }
    let faults = out.net.dropped.iter().sum::<u64>() + out.net.duplicated + out.net.delayed;
    r.nontrivial = faults > 0;
    if out.net.dropped[Class::InputAck as usize] > 0 {
        r.classes.push("ack_lost");
    }
    if out.net.dropped[Class::Input as usize] > 0 {
        r.classes.push("input_lost");
    }
    if out.net.dropped[Class::SyncRequest as usize] + out.net.dropped[Class::SyncReply as usize] > 0 {
        r.classes.push("handshake_packet_lost");
    }
    if out.net.delayed > 0 {
        r.classes.push("packet_delayed");
    }
    if sc.specs.iter().any(|s| s.window == 0) {
        r.classes.push("spectator_window0");
    }
    r
}

/// base configurations for the fault sweeps
pub fn base(c: u64, seed: u64) -> Scenario {
    let mut k = c;
    let window = [0u8, 1, 2, 8][(k % 4) as usize];
    k /= 4;
    let delay = [0u8, 2][(k % 2) as usize];
    k /= 2;
    let lat = [0u16, 20, 60][(k % 3) as usize];
    k /= 3;
    let topo = k % 3; // 0: two players, 1: two players + spectator with the same window, 2: three players
    let mut sc = Scenario::basic(mix(seed ^ 0xc05, c), if topo == 2 { 3 } else { 2 });
    for p in sc.peers.iter_mut() {
        p.delay = delay;
    }
    sc.max_pred = window;
    sc.link = LinkProfile { loss: 0, dup: 0, lat_min: lat, lat_max: lat };
    if topo == 1 {
        sc.specs.push(SpecSpec { host: 0, max_behind: 10, catchup: 2, slow: 0, window });
    }
    sc.sched = 0;
    sc.notify_ms = 2000;
    sc.timeout_ms = 8000;
    // seeded per base config: sparse saving, and perfectly predictable (constant) inputs - with those no
    // misprediction ever forces a rollback, so progress depends on the forced-save / gate logic alone
    let h = mix(seed ^ 0x5a5e, c);
    sc.sparse = window > 0 && h % 2 == 0;
    sc.vals = if (h >> 8) % 3 == 0 { 1 } else { 4 };
    sc
}
pub const NBASE: u64 = 4 * 2 * 3 * 3;

/// k=1: one fault (drop / dup / +300 ms) on packet number (offset + j) of one directed link
pub fn single_fault_case(i: u64, seed: u64, m: u64) -> Scenario {
    let c = i % NBASE;
    let mut k = i / NBASE;
    let mut sc = base(c, seed);
    let links = all_links(&sc);
    let l = links[(k % links.len() as u64) as usize];
    k /= links.len() as u64;
    let kind = k % 3;
    k /= 3;
    let j = k % m;
    // offset: handshake packets are 1..~6, running afterwards; seeded offset places the window in either
    let off = [1u64, 8, 40, 200][(mix(seed, c) % 4) as usize];
    let kk = (off + j) as u32;
    sc.faults.push(match kind {
        0 => Fault::Drop { from: l.0, to: l.1, k: kk },
        1 => Fault::Dup { from: l.0, to: l.1, k: kk },
        _ => Fault::Delay { from: l.0, to: l.1, k: kk, ms: 300 },
    });
    sc.ticks = 260;
    sc.settle = 380; // 6 s clean
    sc
}
pub fn single_fault_count(m: u64) -> u64 {
    // links differ per topology (2, 4, 6): enumerate up to the maximum; the modulo wraps harmlessly
    NBASE * 6 * 3 * m
}

/// k=2: second fault within 8 packets of the first, on the same or the reverse link
pub fn double_fault_case(i: u64, seed: u64, m: u64) -> Scenario {
    let mut sc = single_fault_case(i / (8 * 2 * 3), seed, m);
    let rest = i % (8 * 2 * 3);
    let d = rest % 8;
    let rev = (rest / 8) % 2 == 1;
    let kind = rest / 16;
    if let Some(f0) = sc.faults.first().cloned() {
        let (from, to, k0) = match f0 {
            Fault::Drop { from, to, k } | Fault::Dup { from, to, k } | Fault::Delay { from, to, k, .. } => (from, to, k),
        };
        let (from, to) = if rev { (to, from) } else { (from, to) };
        let k = k0 + d as u32 + if rev { 0 } else { 1 };
        sc.faults.push(match kind {
            0 => Fault::Drop { from, to, k },
            1 => Fault::Dup { from, to, k },
            _ => Fault::Delay { from, to, k, ms: 300 },
        });
    }
    sc
}

/// handshake under a periodic loss pattern: on every link only every k-th of the first 80 packets gets through
pub fn kth_case(i: u64, seed: u64) -> Scenario {
    let c = i % NBASE;
    let k = 2 + (i / NBASE) % 5;
    let phase = (i / NBASE / 5) % 2;
    let mut sc = base(c, seed ^ 0x4b7);
    for (from, to) in all_links(&sc) {
        for n in 1..=80u32 {
            if (n as u64 + phase) % k != 0 {
                sc.faults.push(Fault::Drop { from, to, k: n });
            }
        }
    }
    // 80 packets at one handshake retry per 200 ms can take 16 s: timeouts far above
    sc.notify_ms = 20_000;
    sc.timeout_ms = 60_000;
    sc.ticks = 1400;
    sc.settle = 380;
    sc
}

pub fn gen_bursts(tier: Tier) -> BoxedStrategy<Scenario> {
    let mut p = GenParams::default();
    p.windows = vec![(3, 0), (3, 1), (2, 2), (2, 4), (3, 8), (1, 12)];
    p.ticks = tier.pick((300, 700), (500, 1500));
    p.settle = 380;
    p.outages = 3;
    p.max_outage_ms = 1800;
    p.pauses = 0;
    p.timeouts = vec![(1000, 2000)];
    p.sched_fixed_weight = 3;
    p.max_peers = 3;
    (scenario(&p), any::<u8>())
        .prop_map(|(mut sc, w)| {
            // every fault ends well before the disconnect timeout AND before a sender's 128-frame
            // window of unacknowledged inputs fills up (a spectator link whose acks are lost for more
            // than 128 frames is disconnected by design, see C18): total outage time + round trip + one retry <= 1.8 s
            let total: u32 = sc.ops.iter().map(|o| if let Op::Outage { len_ms, .. } = o { *len_ms } else { 0 }).sum();
            // the acknowledgements that end the drought need a round trip (and up to one 200 ms retry) on top
            let cap = 1800u32.saturating_sub(2 * sc.link.lat_max as u32 + 200).max(300);
            if total > cap {
                for o in sc.ops.iter_mut() {
                    if let Op::Outage { len_ms, .. } = o {
                        *len_ms = (*len_ms as u64 * cap as u64 / total as u64).max(50) as u32;
                    }
                }
            }
            sc.notify_ms = 1000;
            sc.timeout_ms = 3500;
            // spectators use their host's window (documented pairing), sometimes explicitly 0 or 1
            for s in sc.specs.iter_mut() {
                s.window = match w % 4 {
                    0 => 0,
                    1 => 1,
                    _ => sc.max_pred,
                };
                s.slow = 0;
            }
            for p in sc.peers.iter_mut() {
                p.slow = p.slow.min(10);
            }
            if w % 5 == 0 {
                sc.vals = 1; // constant inputs: every prediction is right, nothing ever forces a rollback
            }
            sc
        })
        .boxed()
}

pub fn run_prop(ctx: &Ctx) -> PropReport {
    let mut rep = PropReport::new("C05", "fault_enumeration");
    let seed = ctx.seed;
    let m = ctx.tier.pick(40u64, 120u64);
    rep.part(|| run_enum(ctx, "single_fault",
        "bounded-exhaustive k=1: 72 base configs (window {0,1,2,8} x delay {0,2} x latency {0,20,60 ms} x {2 players, 2 players + spectator built with the same window, 3 players}, sparse saving and constant-vs-changing inputs seeded per config) x every directed link x {drop, duplicate, +300 ms} x each of the M packets following a seeded offset (handshake or running phase; M=40 quick, 120 thorough); then 6 s of clean network; oracle: every player and spectator session is Running, advances >= 3 frames in the last 3 s, no Disconnected event, C01-C03 clauses hold, spectator stream intact; non-trivial = the fault hit a packet that was actually sent",
        single_fault_count(m), move |i| single_fault_case(i, seed, m), eval, true));
    if ctx.tier == Tier::Thorough {
        rep.part(|| run_enum(ctx, "double_fault",
            "bounded-exhaustive k=2: every single-fault case x a second fault {drop, dup, +300 ms} within 8 packets on the same or the reverse link",
            single_fault_count(m) * 48, move |i| double_fault_case(i, seed, m), eval, true));
    } else {
        let n = single_fault_count(m) * 48;
        rep.part(|| run_enum(ctx, "double_fault_sample",
            "k=2 sample: every 37th case of the double-fault enumeration (second fault within 8 packets on the same or the reverse link)",
            n / 37, move |i| double_fault_case(i * 37, seed, m), eval, false));
    }
    rep.part(|| run_enum(ctx, "handshake_every_kth",
        "the 72 base configs x k in 2..=6 x 2 phases: on every link only every k-th of the first 80 packets gets through (handshake and first inputs), then a clean network; same liveness oracle: every session must reach Running and advance",
        NBASE * 5 * 2, move |i| kth_case(i, seed), eval, true));
    let tier = ctx.tier;
    rep.part(|| run_random(ctx, "bursts",
        "random: 2-3 peers (+spectators with window 0 / 1 / host's), windows {0,1,2,4,8,12}, up to 3 burst outages (0.1-1.8 s, 1.8 s in total, i.e. below the 3.5 s timeout and below the 128-frame unacknowledged-input window) in one or both directions on random links, loss up to 40% / dup / reorder during the faulty phase; then 6 s clean; same liveness oracle",
        || gen_bursts(tier), ctx.tier.pick(1500, 8000), eval));
    rep.assumptions = vec!["liveness is bounded liveness under the virtual clock: 'advances >= 3 frames during the last 3 s of a 6 s clean phase'; absolute throughput is not asserted (lockstep with latency above a tick legitimately crawls)".into()];
    rep
}
