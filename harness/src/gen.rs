//! proptest strategies producing `Scenario`s. Construction, not rejection; every numeric knob
//! shrinks towards the benign value (no loss, no latency, no slowness, fewer peers/ticks).
use crate::sim::net::{Fault, LinkProfile};
use crate::sim::scenario::*;
use crate::sim::types::*;
use proptest::prelude::*;
use proptest::strategy::BoxedStrategy;

#[derive(Clone, Debug)]
pub struct GenParams {
    pub min_peers: usize,
    pub max_peers: usize,
    pub max_locals: u8,
    pub max_specs: usize,
    /// allowed prediction windows with weights
    pub windows: Vec<(u32, u8)>,
    pub max_delay: u8,
    pub ticks: (u32, u32),
    pub settle: u32,
    pub loss: Vec<u8>,
    pub dup: Vec<u8>,
    pub lat_min: Vec<u16>,
    pub lat_extra: Vec<u16>,
    pub slow: Vec<u8>,
    pub desync: Vec<u8>,
    pub sparse: bool,
    pub outages: usize,
    pub max_outage_ms: u32,
    pub pauses: usize,
    pub max_pause_ticks: u32,
    pub timeouts: Vec<(u32, u32)>,
    pub sched_fixed_weight: u32,
    pub wide: bool,
    pub predictors: bool,
    pub fps: Vec<u16>,
}

impl Default for GenParams {
    fn default() -> Self {
        GenParams {
            min_peers: 2,
            max_peers: 4,
            max_locals: 2,
            max_specs: 2,
            windows: vec![(2, 1), (2, 2), (2, 3), (3, 4), (2, 6), (4, 8), (2, 10), (2, 12)],
            max_delay: 6,
            ticks: (300, 1500),
            settle: 130,
            loss: vec![0, 0, 5, 20, 40],
            dup: vec![0, 0, 10, 30],
            lat_min: vec![0, 0, 10, 40, 100],
            lat_extra: vec![0, 0, 20, 60, 130],
            slow: vec![0, 0, 10, 25, 40],
            desync: vec![0, 0, 1, 2, 3, 5, 8, 12],
            sparse: true,
            outages: 2,
            max_outage_ms: 1500,
            pauses: 2,
            max_pause_ticks: 50,
            timeouts: vec![(2000, 10000), (500, 2000), (2000, 10000)],
            sched_fixed_weight: 1,
            wide: true,
            predictors: true,
            fps: vec![60],
        }
    }
}

fn pick<T: Clone + std::fmt::Debug + 'static>(v: Vec<T>) -> BoxedStrategy<T> {
    let n = v.len();
    (0..n).prop_map(move |i| v[i].clone()).boxed()
}

fn weighted_window(w: Vec<(u32, u8)>) -> BoxedStrategy<u8> {
    // index shrinks towards the first entry
    let total: u32 = w.iter().map(|x| x.0).sum();
    (0..total.max(1))
        .prop_map(move |mut r| {
            for (wt, v) in &w {
                if r < *wt {
                    return *v;
                }
                r -= wt;
            }
            w.last().map(|x| x.1).unwrap_or(8)
        })
        .boxed()
}

pub fn link_profile(p: &GenParams) -> BoxedStrategy<LinkProfile> {
    (pick(p.loss.clone()), pick(p.dup.clone()), pick(p.lat_min.clone()), pick(p.lat_extra.clone()))
        .prop_map(|(loss, dup, lat_min, extra)| LinkProfile { loss, dup, lat_min, lat_max: lat_min + extra })
        .boxed()
}

/// raw material for ops; resolved against the topology in `assemble`
#[derive(Clone, Debug)]
struct RawOp {
    kind: u8,
    at: u16,
    a: u16,
    b: u16,
    len: u16,
}

fn raw_ops(n: usize) -> BoxedStrategy<Vec<RawOp>> {
    proptest::collection::vec(
        (0u8..2, any::<u16>(), any::<u16>(), any::<u16>(), any::<u16>()).prop_map(|(kind, at, a, b, len)| RawOp { kind, at, a, b, len }),
        0..=n,
    )
    .boxed()
}

pub fn scenario(p: &GenParams) -> BoxedStrategy<Scenario> {
    let p = p.clone();
    let peers = proptest::collection::vec(
        (1u8..=p.max_locals.max(1), 0u8..=p.max_delay, pick(p.slow.clone())),
        p.min_peers..=p.max_peers,
    );
    let specs = proptest::collection::vec(
        (any::<u16>(), prop_oneof![3 => 1u8..=12, 1 => 13u8..=59], prop_oneof![2 => Just(1u8), 2 => 2u8..=6, 1 => 7u8..=70], pick(vec![0u8, 0, 30, 60, 75]), any::<u16>()),
        0..=p.max_specs,
    );
    let core = (
        any::<u64>(),
        peers,
        specs,
        weighted_window(p.windows.clone()),
        if p.sparse { any::<bool>().boxed() } else { Just(false).boxed() },
        pick(p.desync.clone()),
        if p.predictors { (0u8..2).boxed() } else { Just(0u8).boxed() },
        if p.wide { any::<bool>().boxed() } else { Just(false).boxed() },
    );
    let rest = (
        link_profile(&p),
        pick(p.timeouts.clone()),
        p.ticks.0..=p.ticks.1,
        raw_ops(p.outages + p.pauses),
        prop_oneof![p.sched_fixed_weight => Just(0u8), 4 => Just(1u8)],
        pick(p.fps.clone()),
    );
    let pp = p.clone();
    (core, rest)
        .prop_map(move |((seed, peers, specs, max_pred, sparse, desync, predictor, wide), (link, (notify, timeout), ticks, rops, sched, fps))| {
            let np = peers.len();
            let mut sc = Scenario::basic(seed, np);
            sc.peers = peers.iter().map(|(l, d, s)| PeerSpec { locals: *l, delay: *d, slow: *s, use_wait: false, no_checksum: false }).collect();
            sc.specs = specs
                .iter()
                .map(|(h, mb, cu, slow, w)| SpecSpec {
                    host: crate::engine::idx(*h, np) as u8,
                    max_behind: *mb,
                    catchup: *cu,
                    slow: *slow,
                    // mostly the host's window (documented pairing), sometimes something else
                    window: if *w % 4 == 0 { (*w >> 2) as u8 % 13 } else { max_pred },
                })
                .collect();
            sc.max_pred = max_pred;
            sc.sparse = sparse;
            sc.desync = desync;
            sc.predictor = predictor;
            sc.wide = wide;
            sc.link = link;
            sc.notify_ms = notify;
            sc.timeout_ms = timeout;
            sc.ticks = ticks;
            sc.settle = pp.settle;
            sc.sched = sched;
            sc.fps = fps;
            // mostly 4 input values; sometimes 2 or 6; rarely constant inputs (every prediction right)
            sc.vals = [4u8, 4, 4, 4, 2, 6, 4, 1][(seed >> 57) as usize % 8];
            // a quarter of the games keep their snapshots themselves (cells get a checksum but no data)
            sc.own_snapshots = (seed >> 50) % 4 == 0;
            // a third of the games sample their controller per tick: a stalled frame is resubmitted with other values
            sc.resubmit_varies = (seed >> 44) % 3 == 0;
            sc.double_submit = (seed >> 40) % 4 == 0;
            sc.weak_checksum = (seed >> 32) % 6 == 0;
            // one game in eight saves without checksums on its first peer (asymmetric use of desync detection)
            if (seed >> 36) % 8 == 0 {
                sc.peers[0].no_checksum = true;
            }
            // ops
            let mut outages = 0;
            let mut pauses = 0;
            for r in &rops {
                let at = 30 + crate::engine::idx(r.at, ticks.saturating_sub(30).max(1) as usize) as u32;
                if r.kind == 0 && outages < pp.outages && pp.max_outage_ms > 0 {
                    outages += 1;
                    let nodes = all_nodes(&sc);
                    let from = nodes[crate::engine::idx(r.a, nodes.len())];
                    let tos: Vec<u8> = neighbours(&sc, from);
                    if tos.is_empty() {
                        continue;
                    }
                    let to = tos[crate::engine::idx(r.b, tos.len())];
                    let len_ms = 100 + crate::engine::idx(r.len, (pp.max_outage_ms.saturating_sub(100)).max(1) as usize) as u32;
                    sc.ops.push(Op::Outage { tick: at, from, to, len_ms });
                    if r.len % 2 == 1 {
                        sc.ops.push(Op::Outage { tick: at, from: to, to: from, len_ms });
                    }
                } else if r.kind == 1 && pauses < pp.pauses && pp.max_pause_ticks > 0 {
                    pauses += 1;
                    let nn = np + sc.specs.len();
                    let k = crate::engine::idx(r.a, nn);
                    let node = if k < np { k as u8 } else { 100 + (k - np) as u8 };
                    let t = 1 + crate::engine::idx(r.len, pp.max_pause_ticks as usize) as u32;
                    sc.ops.push(Op::Pause { tick: at, node, ticks: t });
                }
            }
            // "stop short of a disconnect" by construction: with outages or pauses in the case the
            // timeouts are raised well above anything the schedule can produce
            // (also under heavy loss: during a handshake only one packet per 200 ms is sent, and eight
            // to ten consecutive losses at 40 % do happen in thousands of cases)
            if (!sc.ops.is_empty() || sc.link.loss >= 20) && sc.timeout_ms < 10_000 {
                sc.notify_ms = 2000;
                sc.timeout_ms = 10_000;
            }
            sc
        })
        .boxed()
}

pub fn all_nodes(sc: &Scenario) -> Vec<u8> {
    let mut v: Vec<u8> = (0..sc.peers.len()).map(peer_addr).collect();
    for i in 0..sc.specs.len() {
        v.push(spec_addr(i));
    }
    v
}

/// addresses `from` exchanges packets with
pub fn neighbours(sc: &Scenario, from: u8) -> Vec<u8> {
    let np = sc.peers.len();
    let mut v = Vec::new();
    if (from as usize) <= np {
        for o in 0..np {
            if peer_addr(o) != from {
                v.push(peer_addr(o));
            }
        }
        for (i, s) in sc.specs.iter().enumerate() {
            if peer_addr(s.host as usize) == from {
                v.push(spec_addr(i));
            }
        }
    } else {
        let i = (from - 101) as usize;
        if i < sc.specs.len() {
            v.push(peer_addr(sc.specs[i].host as usize));
        }
    }
    v
}

/// all directed links of the topology
pub fn all_links(sc: &Scenario) -> Vec<(u8, u8)> {
    let mut v = Vec::new();
    for a in all_nodes(sc) {
        for b in neighbours(sc, a) {
            v.push((a, b));
        }
    }
    v
}

#[allow(dead_code)]
pub fn faults_strategy(links: Vec<(u8, u8)>, max_k: u32, n: usize) -> BoxedStrategy<Vec<Fault>> {
    let nl = links.len().max(1);
    proptest::collection::vec((0u8..3, 0..nl, 1u32..=max_k.max(1), 50u16..400), 0..=n)
        .prop_map(move |v| {
            v.into_iter()
                .filter(|_| !links.is_empty())
                .map(|(kind, l, k, ms)| {
                    let (from, to) = links[l];
                    match kind {
                        0 => Fault::Drop { from, to, k },
                        1 => Fault::Dup { from, to, k },
                        _ => Fault::Delay { from, to, k, ms },
                    }
                })
                .collect()
        })
        .boxed()
}
