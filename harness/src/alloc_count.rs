//! Counting global allocator: per-thread current/peak live bytes, so a single call's peak
//! allocation can be measured (C14/C08: "never allocates unboundedly").
use std::alloc::{GlobalAlloc, Layout, System};
use std::cell::Cell;

thread_local! {
    static CUR: Cell<isize> = const { Cell::new(0) };
    static PEAK: Cell<isize> = const { Cell::new(0) };
}

pub struct Counting;

unsafe impl GlobalAlloc for Counting {
    unsafe fn alloc(&self, l: Layout) -> *mut u8 {
        note(l.size() as isize);
        System.alloc(l)
    }
    unsafe fn alloc_zeroed(&self, l: Layout) -> *mut u8 {
        note(l.size() as isize);
        System.alloc_zeroed(l)
    }
    unsafe fn dealloc(&self, p: *mut u8, l: Layout) {
        note(-(l.size() as isize));
        System.dealloc(p, l)
    }
    unsafe fn realloc(&self, p: *mut u8, l: Layout, new: usize) -> *mut u8 {
        note(new as isize - l.size() as isize);
        System.realloc(p, l, new)
    }
}

#[inline]
fn note(d: isize) {
    let _ = CUR.try_with(|c| {
        let v = c.get() + d;
        c.set(v);
        let _ = PEAK.try_with(|p| {
            if v > p.get() {
                p.set(v);
            }
        });
    });
}

/// start a measurement: peak := current
pub fn reset_peak() -> isize {
    let cur = CUR.with(|c| c.get());
    PEAK.with(|p| p.set(cur));
    cur
}
/// peak live bytes above the level at `reset_peak`
pub fn peak_since(base: isize) -> usize {
    (PEAK.with(|p| p.get()) - base).max(0) as usize
}
