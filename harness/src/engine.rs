//! Parallel driver around proptest's TestRunner (random parts) and plain enumeration (bounded-
//! exhaustive parts): fixed work per tier, deterministic in (VERIF_SEED, property, part, worker),
//! shrinking, replay files, known-finding matching and evidence accounting.
use proptest::strategy::{BoxedStrategy, Strategy, ValueTree};
use proptest::test_runner::{Config, RngSeed, TestCaseError, TestError, TestRunner};
use serde::{de::DeserializeOwned, Serialize};
use serde_json::{json, Value};
use std::collections::{BTreeMap, BTreeSet, HashSet};
use std::fmt::Debug;
use std::sync::atomic::{AtomicBool, AtomicU64, Ordering};
use std::sync::Mutex;

#[derive(Copy, Clone, Debug, PartialEq, Eq)]
pub enum Tier {
    Quick,
    Thorough,
}
impl Tier {
    pub fn name(&self) -> &'static str {
        match self {
            Tier::Quick => "quick",
            Tier::Thorough => "thorough",
        }
    }
    pub fn pick<T>(&self, q: T, t: T) -> T {
        match self {
            Tier::Quick => q,
            Tier::Thorough => t,
        }
    }
}

pub struct Ctx {
    pub prop: &'static str,
    pub tier: Tier,
    pub seed: u64,
    pub workers: usize,
    pub verif_dir: String,
    pub known: Vec<KnownFinding>,
    /// replay mode: print details
    pub verbose: bool,
}

#[derive(Clone, Debug)]
pub struct KnownFinding {
    pub prop: String,
    pub sig: String,
    pub what: String,
}

pub fn load_known(verif_dir: &str) -> Vec<KnownFinding> {
    let mut v = Vec::new();
    let Ok(txt) = std::fs::read_to_string(format!("{verif_dir}/KNOWN_FINDINGS.txt")) else {
        return v;
    };
    for line in txt.lines() {
        let line = line.trim();
        // known: property=C10 sig=<sig-without-spaces> <what fails>
        if let Some(rest) = line.strip_prefix("known:") {
            let mut prop = String::new();
            let mut sig = String::new();
            let mut what = Vec::new();
            for tok in rest.split_whitespace() {
                if let Some(p) = tok.strip_prefix("property=") {
                    prop = p.to_string();
                } else if let Some(s) = tok.strip_prefix("sig=") {
                    sig = s.to_string();
                } else {
                    what.push(tok);
                }
            }
            if !prop.is_empty() && !sig.is_empty() {
                v.push(KnownFinding { prop, sig, what: what.join(" ") });
            }
        }
    }
    v
}

/// where evidence and replay files go (VERIF_OUT overrides, used by the mutant runner so that
/// runs against a deliberately broken tree do not overwrite the evidence of the real tree)
pub fn out_dir(ctx: &Ctx) -> String {
    std::env::var("VERIF_OUT").unwrap_or_else(|_| ctx.verif_dir.clone())
}

/// signatures are stored without spaces
pub fn sig_key(s: &str) -> String {
    s.chars().map(|c| if c.is_whitespace() { '_' } else { c }).collect()
}

#[derive(Clone, Debug, Default)]
pub struct CaseResult {
    /// (signature, human message) of the first violation relevant to the property being checked
    pub violation: Option<(String, String)>,
    pub nontrivial: bool,
    pub classes: Vec<&'static str>,
    pub counters: Vec<(&'static str, u64)>,
    /// short description used in evidence samples
    pub summary: String,
}

#[derive(Clone, Debug)]
pub struct ViolationReport {
    pub part: String,
    pub sig: String,
    pub msg: String,
    pub case: Value,
    pub replay: String,
}

#[derive(Clone, Debug, Default)]
pub struct PartReport {
    pub name: String,
    pub rule: String,
    pub evaluations: u64,
    pub nontrivial: u64,
    pub distinct_nontrivial: u64,
    pub classes: BTreeMap<String, u64>,
    pub counters: BTreeMap<String, u64>,
    pub samples: Vec<Value>,
    pub known_hits: BTreeMap<String, u64>,
    pub violation: Option<ViolationReport>,
    pub exhaustive: bool,
    pub wall_s: f64,
}

struct Shared {
    evaluations: u64,
    nontrivial: u64,
    distinct: HashSet<u64>,
    classes: BTreeMap<String, u64>,
    counters: BTreeMap<String, u64>,
    samples: Vec<Value>,
    sample_classes: BTreeSet<String>,
    known_hits: BTreeMap<String, u64>,
}

fn hash_str(s: &str) -> u64 {
    let mut h = 0xcbf2_9ce4_8422_2325u64;
    for b in s.bytes() {
        h ^= b as u64;
        h = h.wrapping_mul(0x1000_0000_01b3);
    }
    h
}

fn account<C: Serialize>(sh: &Mutex<Shared>, case: &C, r: &CaseResult, max_counters: &[&str]) {
    let mut g = sh.lock().unwrap();
    g.evaluations += 1;
    for c in &r.classes {
        *g.classes.entry(c.to_string()).or_insert(0) += 1;
    }
    for (k, v) in &r.counters {
        let e = g.counters.entry(k.to_string()).or_insert(0);
        if k.starts_with("max_") || max_counters.contains(k) {
            *e = (*e).max(*v);
        } else {
            *e += *v;
        }
    }
    if r.nontrivial {
        g.nontrivial += 1;
        let js = serde_json::to_string(case).unwrap_or_default();
        g.distinct.insert(hash_str(&js));
    }
    // samples: first case, then one per new class among non-trivial cases (max 6)
    let want = g.samples.is_empty()
        || (r.nontrivial && g.samples.len() < 6 && r.classes.iter().any(|c| !g.sample_classes.contains(*c)));
    if want {
        for c in &r.classes {
            g.sample_classes.insert(c.to_string());
        }
        // keep evidence files small: large cases (e.g. 65535-byte codec inputs) are abbreviated
        let js = serde_json::to_string(case).unwrap_or_default();
        let case_v = if js.len() > 3000 {
            json!({"abbreviated": true, "json_length": js.len(), "json_prefix": js.chars().take(1200).collect::<String>()})
        } else {
            serde_json::to_value(case).unwrap_or(Value::Null)
        };
        let v = json!({"case": case_v, "nontrivial": r.nontrivial, "classes": r.classes, "summary": r.summary});
        g.samples.push(v);
    }
}

fn new_shared() -> Mutex<Shared> {
    Mutex::new(Shared {
        evaluations: 0,
        nontrivial: 0,
        distinct: HashSet::new(),
        classes: BTreeMap::new(),
        counters: BTreeMap::new(),
        samples: Vec::new(),
        sample_classes: BTreeSet::new(),
        known_hits: BTreeMap::new(),
    })
}

fn finish(name: &str, rule: &str, sh: Mutex<Shared>, violation: Option<ViolationReport>, exhaustive: bool, t: std::time::Instant) -> PartReport {
    let g = sh.into_inner().unwrap();
    PartReport {
        name: name.to_string(),
        rule: rule.to_string(),
        evaluations: g.evaluations,
        nontrivial: g.nontrivial,
        distinct_nontrivial: g.distinct.len() as u64,
        classes: g.classes,
        counters: g.counters,
        samples: g.samples,
        known_hits: g.known_hits,
        violation,
        exhaustive,
        wall_s: t.elapsed().as_secs_f64(),
    }
}

fn is_known(ctx: &Ctx, sig: &str) -> Option<String> {
    let k = sig_key(sig);
    // survey mode (development aid): never stop, histogram every signature
    if std::env::var("VERIF_SURVEY").is_ok() {
        return Some("survey".into());
    }
    ctx.known.iter().find(|f| f.prop == ctx.prop && f.sig == k).map(|f| f.what.clone())
}

/// development aid: VERIF_PART=<name> runs only that part of a property (never used by the registered commands)
fn dev_skip(part: &str) -> bool {
    std::env::var("VERIF_PART").map(|p| p != part).unwrap_or(false)
}

pub fn write_replay<C: Serialize>(ctx: &Ctx, part: &str, case: &C, sig: &str, msg: &str) -> (Value, String) {
    let case_v = serde_json::to_value(case).unwrap_or(Value::Null);
    let dir = format!("{}/replays", out_dir(ctx));
    let _ = std::fs::create_dir_all(&dir);
    let path = format!("{}/{}-{}-{:08x}.json", dir, ctx.prop, part, hash_str(sig) as u32);
    let doc = json!({"property": ctx.prop, "part": part, "signature": sig, "message": msg, "case": case_v});
    let _ = std::fs::write(&path, serde_json::to_string_pretty(&doc).unwrap());
    (case_v, path)
}

/// Random part: proptest strategy, `cases` cases split over the workers (fixed work).
pub fn run_random<C, F, S>(ctx: &Ctx, part: &str, rule: &str, make_strategy: S, cases: u32, eval: F) -> PartReport
where
    C: Debug + Clone + Serialize + DeserializeOwned + Send + 'static,
    F: Fn(&C) -> CaseResult + Sync,
    S: Fn() -> BoxedStrategy<C> + Sync,
{
    if dev_skip(part) {
        return PartReport { name: format!("{part}(skipped:VERIF_PART)"), ..Default::default() };
    }
    let t = std::time::Instant::now();
    let sh = new_shared();
    let stop = AtomicBool::new(false);
    let failures: Mutex<Vec<(usize, String, C)>> = Mutex::new(Vec::new());
    let workers = ctx.workers.max(1).min(cases.max(1) as usize);
    let per = cases / workers as u32;
    let extra = cases % workers as u32;
    let part_hash = hash_str(part) ^ hash_str(ctx.prop).rotate_left(13);
    std::thread::scope(|scope| {
        for w in 0..workers {
            let sh = &sh;
            let stop = &stop;
            let failures = &failures;
            let eval = &eval;
            let make_strategy = &make_strategy;
            let n = per + if (w as u32) < extra { 1 } else { 0 };
            std::thread::Builder::new()
                .stack_size(64 << 20)
                .spawn_scoped(scope, move || {
                    crate::sim::world::QUIET_PANICS.with(|q| q.set(true));
                    let mut cfg = Config::default();
                    cfg.cases = n;
                    cfg.failure_persistence = None;
                    cfg.rng_seed = RngSeed::Fixed(crate::sim::types::mix(crate::sim::types::mix(ctx.seed, part_hash), w as u64));
                    cfg.max_shrink_iters = 600;
                    cfg.max_shrink_time = 0;
                    cfg.max_global_rejects = 1 << 20;
                    cfg.verbose = 0;
                    let mut runner = TestRunner::new(cfg);
                    let strategy = make_strategy();
                    let my_sig: Mutex<Option<String>> = Mutex::new(None);
                    let res = runner.run(&strategy, |case| {
                        let failing = my_sig.lock().unwrap().clone();
                        if failing.is_none() && stop.load(Ordering::Relaxed) {
                            return Ok(());
                        }
                        let r = eval(&case);
                        match (&r.violation, &failing) {
                            (Some((sig, _)), None) => {
                                if let Some(_what) = is_known(ctx, sig) {
                                    account(sh, &case, &r, &[]);
                                    *sh.lock().unwrap().known_hits.entry(sig_key(sig)).or_insert(0) += 1;
                                    Ok(())
                                } else {
                                    *my_sig.lock().unwrap() = Some(sig.clone());
                                    stop.store(true, Ordering::Relaxed);
                                    Err(TestCaseError::fail(sig.clone()))
                                }
                            }
                            (Some((sig, _)), Some(f)) => {
                                if sig == f {
                                    Err(TestCaseError::fail(sig.clone()))
                                } else {
                                    Ok(())
                                }
                            }
                            (None, None) => {
                                account(sh, &case, &r, &[]);
                                Ok(())
                            }
                            (None, Some(_)) => Ok(()),
                        }
                    });
                    if let Err(TestError::Fail(reason, case)) = res {
                        failures.lock().unwrap().push((w, reason.message().to_string(), case));
                    } else if let Err(TestError::Abort(reason)) = res {
                        eprintln!("[{}:{}] worker {} aborted: {}", ctx.prop, part, w, reason.message());
                    }
                })
                .expect("spawn worker");
        }
    });
    let mut fails = failures.into_inner().unwrap();
    fails.sort_by_key(|f| f.0);
    let violation = fails.into_iter().next().map(|(_, sig, case)| {
        crate::sim::world::QUIET_PANICS.with(|q| q.set(true));
        let r = eval(&case);
        let msg = r.violation.map(|v| v.1).unwrap_or_else(|| "(did not reproduce on re-evaluation: flaky)".into());
        let (case_v, path) = write_replay(ctx, part, &case, &sig, &msg);
        ViolationReport { part: part.to_string(), sig, msg, case: case_v, replay: path }
    });
    finish(part, rule, sh, violation, false, t)
}

/// Enumerated part: `count` cases produced by `make(i)`; complete enumeration => exhaustive.
pub fn run_enum<C, F, M>(ctx: &Ctx, part: &str, rule: &str, count: u64, make: M, eval: F, exhaustive: bool) -> PartReport
where
    C: Debug + Clone + Serialize + Send + 'static,
    F: Fn(&C) -> CaseResult + Sync,
    M: Fn(u64) -> C + Sync,
{
    if dev_skip(part) {
        return PartReport { name: format!("{part}(skipped:VERIF_PART)"), ..Default::default() };
    }
    let t = std::time::Instant::now();
    let sh = new_shared();
    let next = AtomicU64::new(0);
    let first_fail: Mutex<Option<(u64, String, String, C)>> = Mutex::new(None);
    let stop = AtomicBool::new(false);
    let workers = ctx.workers.max(1);
    // development aid: VERIF_ONLY_INDEX=<i> evaluates only case i of an enumerated part and writes it out as JSON
    let only: Option<u64> = std::env::var("VERIF_ONLY_INDEX").ok().and_then(|v| v.parse().ok());
    std::thread::scope(|scope| {
        for _ in 0..workers {
            let sh = &sh;
            let next = &next;
            let first_fail = &first_fail;
            let stop = &stop;
            let eval = &eval;
            let make = &make;
            std::thread::Builder::new()
                .stack_size(64 << 20)
                .spawn_scoped(scope, move || {
                    crate::sim::world::QUIET_PANICS.with(|q| q.set(true));
                    loop {
                        let i = next.fetch_add(1, Ordering::Relaxed);
                        if i >= count || stop.load(Ordering::Relaxed) {
                            break;
                        }
                        if only.map(|o| o != i).unwrap_or(false) {
                            continue;
                        }
                        let case = make(i);
                        if only.is_some() {
                            let _ = std::fs::write(format!("{}/case-{}-{}-{}.json", out_dir(ctx), ctx.prop, part, i), serde_json::to_string_pretty(&json!({"property": ctx.prop, "part": part, "case": serde_json::to_value(&case).unwrap_or(Value::Null)})).unwrap());
                        }
                        let r = eval(&case);
                        if let Some((sig, msg)) = &r.violation {
                            if is_known(ctx, sig).is_some() {
                                account(sh, &case, &r, &[]);
                                *sh.lock().unwrap().known_hits.entry(sig_key(sig)).or_insert(0) += 1;
                                continue;
                            }
                            let mut g = first_fail.lock().unwrap();
                            if g.as_ref().map(|f| i < f.0).unwrap_or(true) {
                                *g = Some((i, sig.clone(), msg.clone(), case));
                            }
                            stop.store(true, Ordering::Relaxed);
                        } else {
                            account(sh, &case, &r, &[]);
                        }
                    }
                })
                .expect("spawn worker");
        }
    });
    let violation = first_fail.into_inner().unwrap().map(|(_, sig, msg, case)| {
        let (case_v, path) = write_replay(ctx, part, &case, &sig, &msg);
        ViolationReport { part: part.to_string(), sig, msg, case: case_v, replay: path }
    });
    finish(part, rule, sh, violation, exhaustive, t)
}

/// Greedy structural shrinking for enumerated scenario cases is done by the caller through
/// `shrink_with`: repeatedly try candidate simplifications, keep those that still fail with the
/// same signature.
pub fn shrink_with<C: Clone>(case: C, sig: &str, candidates: impl Fn(&C) -> Vec<C>, eval: impl Fn(&C) -> CaseResult, max_steps: usize) -> C {
    let mut cur = case;
    let mut steps = 0;
    'outer: loop {
        for cand in candidates(&cur) {
            steps += 1;
            if steps > max_steps {
                break 'outer;
            }
            if let Some((s, _)) = eval(&cand).violation {
                if s == sig {
                    cur = cand;
                    continue 'outer;
                }
            }
        }
        break;
    }
    cur
}

pub struct PropReport {
    pub prop: &'static str,
    pub level: &'static str,
    pub parts: Vec<PartReport>,
    pub assumptions: Vec<String>,
    pub extra: BTreeMap<String, Value>,
    /// minimal fraction of non-trivial cases per part name (generator-regression guard)
    pub floors: Vec<(String, f64)>,
}

impl PropReport {
    pub fn new(prop: &'static str, level: &'static str) -> Self {
        PropReport { prop, level, parts: Vec::new(), assumptions: Vec::new(), extra: BTreeMap::new(), floors: Vec::new() }
    }
    pub fn violation(&self) -> Option<&ViolationReport> {
        self.parts.iter().find_map(|p| p.violation.as_ref())
    }
    /// runs the next part unless an earlier part already found a violation (fail fast: a tree with a
    /// shallow defect must not spend minutes in the later, more expensive parts)
    pub fn part(&mut self, f: impl FnOnce() -> PartReport) {
        if self.violation().is_none() {
            let p = f();
            self.parts.push(p);
        }
    }
}

/// writes evidence/<id>.json and prints the verdict lines; returns the process exit code
pub fn conclude(ctx: &Ctx, rep: &PropReport, wall_s: f64) -> i32 {
    let evaluations: u64 = rep.parts.iter().map(|p| p.evaluations).sum();
    let distinct: u64 = rep.parts.iter().map(|p| p.distinct_nontrivial).sum();
    let mut classes: BTreeMap<String, u64> = BTreeMap::new();
    let mut counters: BTreeMap<String, u64> = BTreeMap::new();
    let mut samples: Vec<Value> = Vec::new();
    let mut known: BTreeMap<String, u64> = BTreeMap::new();
    let mut parts_v = Vec::new();
    for p in &rep.parts {
        for (k, v) in &p.classes {
            *classes.entry(k.clone()).or_insert(0) += v;
        }
        for (k, v) in &p.counters {
            let e = counters.entry(k.clone()).or_insert(0);
            if k.starts_with("max_") {
                *e = (*e).max(*v);
            } else {
                *e += v;
            }
        }
        for s in p.samples.iter().take(3) {
            let mut s = s.clone();
            if let Some(o) = s.as_object_mut() {
                o.insert("part".into(), json!(p.name));
            }
            samples.push(s);
        }
        for (k, v) in &p.known_hits {
            *known.entry(k.clone()).or_insert(0) += v;
        }
        parts_v.push(json!({
            "part": p.name, "rule": p.rule, "evaluations": p.evaluations, "nontrivial": p.nontrivial,
            "distinct_nontrivial": p.distinct_nontrivial, "exhaustive": p.exhaustive, "classes": p.classes,
            "counters": p.counters, "wall_s": (p.wall_s * 100.0).round() / 100.0,
            "violation": p.violation.as_ref().map(|v| json!({"signature": v.sig, "message": v.msg, "replay": v.replay})),
        }));
    }
    let rule = rep.parts.iter().map(|p| format!("[{}] {}", p.name, p.rule)).collect::<Vec<_>>().join(" || ");
    let exhaustive_all = !rep.parts.is_empty() && rep.parts.iter().all(|p| p.exhaustive);
    let excluded: u64 = known.values().sum();
    let mut coverage = json!({
        "evaluations": evaluations,
        "distinct_nontrivial": distinct,
        "rule": rule,
        "samples": samples,
        "classes": classes,
        "totals": counters,
        "parts": parts_v,
        "known_findings_hit": known,
        "excluded_cases": excluded,
        "exhaustive": exhaustive_all,
    });
    for (k, v) in &rep.extra {
        coverage[k] = v.clone();
    }
    let viol = rep.violation();
    let ev = json!({
        "property_id": rep.prop,
        "tier": ctx.tier.name(),
        "seed": ctx.seed,
        "level": rep.level,
        "coverage": coverage,
        "assumptions": rep.assumptions,
        "wall_s": (wall_s * 100.0).round() / 100.0,
        "violations": if viol.is_some() { 1 } else { 0 },
    });
    let dir = format!("{}/evidence", out_dir(ctx));
    let _ = std::fs::create_dir_all(&dir);
    let path = format!("{}/{}.json", dir, rep.prop);
    if let Err(e) = std::fs::write(&path, serde_json::to_string_pretty(&ev).unwrap()) {
        eprintln!("cannot write evidence {path}: {e}");
        return 2;
    }
    for p in &rep.parts {
        println!(
            "[{}:{}] evaluations={} nontrivial={} distinct_nontrivial={} exhaustive={} wall={:.1}s",
            rep.prop, p.name, p.evaluations, p.nontrivial, p.distinct_nontrivial, p.exhaustive, p.wall_s
        );
    }
    for (sig, n) in &known {
        let what = ctx.known.iter().find(|f| f.prop == rep.prop && &f.sig == sig).map(|f| f.what.clone()).unwrap_or_default();
        println!("KNOWN-FINDING: property={} {} (sig={} hits={})", rep.prop, what, sig, n);
    }
    if let Some(v) = viol {
        println!("violation in part {}: {} :: {}", v.part, v.sig, v.msg);
        println!("VIOLATION property={} replay={}", rep.prop, v.replay);
        return 1;
    }
    // generator-regression guard: never a violation, but not a pass either
    for (name, floor) in &rep.floors {
        if let Some(p) = rep.parts.iter().find(|p| &p.name == name) {
            if p.evaluations > 0 && (p.nontrivial as f64) < floor * p.evaluations as f64 {
                eprintln!(
                    "INCONCLUSIVE property={} part={}: only {}/{} cases were non-trivial (floor {:.0}%) - generator regression",
                    rep.prop, name, p.nontrivial, p.evaluations, floor * 100.0
                );
                return 2;
            }
        }
    }
    if distinct < 2 {
        eprintln!("INCONCLUSIVE property={}: fewer than 2 distinct non-trivial cases", rep.prop);
        return 2;
    }
    println!("OK property={} tier={} seed={} evaluations={} distinct_nontrivial={}", rep.prop, ctx.tier.name(), ctx.seed, evaluations, distinct);
    0
}

/// helper for strategies: monotone index mapping (shrinks towards 0)
pub fn idx(i: u16, len: usize) -> usize {
    ((i as usize) * len) >> 16
}

#[allow(dead_code)]
pub fn sample_tree<T: Debug>(s: &BoxedStrategy<T>, seed: u64) -> T {
    let mut cfg = Config::default();
    cfg.rng_seed = RngSeed::Fixed(seed);
    cfg.failure_persistence = None;
    let mut r = TestRunner::new(cfg);
    s.new_tree(&mut r).unwrap().current()
}
