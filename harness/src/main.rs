use vcheck::engine::*;
use vcheck::{alloc_count, props, sim};

#[global_allocator]
static GLOBAL: alloc_count::Counting = alloc_count::Counting;

fn usage() -> ! {
    eprintln!("usage: vcheck <C01..C18> [--tier quick|thorough] [--seed N]\n       vcheck replay <file.json>\n       vcheck list");
    std::process::exit(2);
}

fn main() {
    sim::world::install_panic_hook();
    let args: Vec<String> = std::env::args().skip(1).collect();
    if args.is_empty() {
        usage();
    }
    let verif_dir = std::env::var("VERIF_DIR").unwrap_or_else(|_| "/verif".to_string());
    let mut tier = match std::env::var("VERIF_TIER").as_deref() {
        Ok("thorough") => Tier::Thorough,
        _ => Tier::Quick,
    };
    let mut seed: u64 = std::env::var("VERIF_SEED").ok().and_then(|s| s.parse::<i64>().ok()).map(|v| v as u64).unwrap_or(0);
    let mut i = 1;
    while i < args.len() {
        match args[i].as_str() {
            "--tier" => {
                i += 1;
                tier = match args.get(i).map(|s| s.as_str()) {
                    Some("thorough") => Tier::Thorough,
                    Some("quick") => Tier::Quick,
                    _ => usage(),
                };
            }
            "--seed" => {
                i += 1;
                seed = args.get(i).and_then(|s| s.parse::<i64>().ok()).map(|v| v as u64).unwrap_or_else(|| usage());
            }
            _ => {}
        }
        i += 1;
    }
    let workers = std::env::var("VERIF_WORKERS").ok().and_then(|s| s.parse().ok()).unwrap_or_else(|| std::thread::available_parallelism().map(|n| n.get()).unwrap_or(8).min(16));
    match args[0].as_str() {
        "codec-worker" => props::c14::worker_main(),
        "codec-one" => props::c14::one_main(),
        "debug" => {
            // vcheck debug <replay-or-scenario.json> [substring filter for the packet trace]
            let path = args.get(1).cloned().unwrap_or_else(|| usage());
            let doc: serde_json::Value = serde_json::from_str(&std::fs::read_to_string(&path).expect("read")).expect("json");
            let case = if doc.get("case").is_some() { doc["case"].clone() } else { doc };
            let sc: sim::scenario::Scenario = serde_json::from_value(case).expect("scenario");
            let mut o = sim::world::RunOpts::default();
            o.log_net = true;
            o.record_trace = true;
            o.same_random_stream = std::env::var("VERIF_SAME_RANDOM").is_ok();
            let out = sim::world::run(&sc, &o);
            let filt = args.get(2).cloned();
            for l in &out.net.trace {
                if filt.as_ref().map(|f| l.contains(f.as_str())).unwrap_or(false) {
                    println!("{l}");
                }
            }
            for v in &out.viols {
                println!("VIOL {:?}", v);
            }
            for (i, p) in out.peers.iter().enumerate() {
                println!("peer{i}: frame {} conf {} cs {:?} stats {:?} stalls {}", p.current_frame, p.last_conf, p.cs, p.stats, p.stalls);
                for e in &p.events {
                    println!("   {} {:?}", e.0, e.1);
                }
                if std::env::var("VERIF_TRACE").is_ok() {
                    for t in &p.trace {
                        println!("   {t}");
                    }
                }
            }
            for (i, p) in out.specs.iter().enumerate() {
                println!("spec{i}: frame {} waits {} too_far {} events {:?}", p.current_frame, p.waits, p.too_far, p.events);
            }
        }
        "list" => {
            for p in props::ALL {
                println!("{p}");
            }
        }
        "replay" => {
            let path = args.get(1).cloned().unwrap_or_else(|| usage());
            std::process::exit(replay_file(&path, &verif_dir, true));
        }
        prop => {
            let Some(prop_static) = props::ALL.iter().find(|p| **p == prop) else {
                eprintln!("unknown property {prop}");
                std::process::exit(2);
            };
            let ctx = Ctx { prop: prop_static, tier, seed, workers, verif_dir: verif_dir.clone(), known: load_known(&verif_dir), verbose: false };
            let t = std::time::Instant::now();
            // regression replays first: saved cases that must pass on a correct tree
            let mut regress_fail: Option<String> = None;
            let rdir = format!("{verif_dir}/replays/regress");
            if let Ok(rd) = std::fs::read_dir(&rdir) {
                let mut files: Vec<_> = rd.filter_map(|e| e.ok()).map(|e| e.path()).filter(|p| p.file_name().and_then(|n| n.to_str()).map(|n| n.starts_with(&format!("{prop}-")) && n.ends_with(".json")).unwrap_or(false)).collect();
                files.sort();
                let mut n = 0;
                for f in files {
                    n += 1;
                    let code = replay_file(f.to_str().unwrap(), &verif_dir, false);
                    if code == 1 && regress_fail.is_none() {
                        regress_fail = Some(f.to_string_lossy().to_string());
                    }
                }
                println!("[{prop}:regress] replayed {n} saved cases");
            }
            let Some(mut rep) = props::run_prop(&ctx) else {
                eprintln!("no runner for {prop}");
                std::process::exit(2);
            };
            if let Some(path) = regress_fail {
                if rep.violation().is_none() {
                    let mut pr = PartReport::default();
                    pr.name = "regress".into();
                    pr.violation = Some(ViolationReport { part: "regress".into(), sig: "regression".into(), msg: "a saved regression case fails again".into(), case: serde_json::Value::Null, replay: path });
                    rep.parts.push(pr);
                }
            }
            let code = conclude(&ctx, &rep, t.elapsed().as_secs_f64());
            std::process::exit(code);
        }
    }
}

/// returns 0 = passes, 1 = violation reproduces, 2 = cannot replay
fn replay_file(path: &str, verif_dir: &str, verbose: bool) -> i32 {
    let Ok(txt) = std::fs::read_to_string(path) else {
        eprintln!("cannot read {path}");
        return 2;
    };
    let Ok(doc) = serde_json::from_str::<serde_json::Value>(&txt) else {
        eprintln!("cannot parse {path}");
        return 2;
    };
    let prop = doc["property"].as_str().unwrap_or("");
    let part = doc["part"].as_str().unwrap_or("");
    let known = load_known(verif_dir);
    sim::world::QUIET_PANICS.with(|q| q.set(!verbose));
    // run 3 times in fresh threads (fresh hash-map RandomState): outcome must not depend on it
    let mut results = Vec::new();
    for _ in 0..3 {
        let case = doc["case"].clone();
        let (prop_s, part_s) = (prop.to_string(), part.to_string());
        let h = std::thread::Builder::new().stack_size(64 << 20).spawn(move || {
            sim::world::QUIET_PANICS.with(|q| q.set(true));
            props::replay(&prop_s, &part_s, &case)
        });
        match h.expect("spawn").join() {
            Ok(Some(r)) => results.push(r),
            Ok(None) => {
                eprintln!("unknown property/part {prop}/{part} in {path}");
                return 2;
            }
            Err(_) => {
                eprintln!("replay thread panicked outside ggrs");
                return 2;
            }
        }
    }
    let sigs: Vec<Option<String>> = results.iter().map(|r| r.violation.as_ref().map(|v| v.0.clone())).collect();
    if sigs.iter().any(|s| s != &sigs[0]) {
        println!("replay {path}: outcome differs between repetitions (hash-order dependence): {sigs:?}");
    }
    match results.iter().find_map(|r| r.violation.clone()) {
        Some((sig, msg)) => {
            let k = sig_key(&sig);
            if known.iter().any(|f| f.prop == prop && f.sig == k) {
                println!("replay {path}: KNOWN-FINDING property={prop} sig={k}");
                if verbose {
                    println!("  {msg}");
                }
                0
            } else {
                println!("replay {path}: violation reproduces: {sig} :: {msg}");
                if verbose {
                    println!("VIOLATION property={prop} replay={path}");
                }
                1
            }
        }
        None => {
            if verbose {
                println!("replay {path}: passes ({})", results[0].summary);
            }
            0
        }
    }
}
