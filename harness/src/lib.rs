//! vcheck: property-based verification harness for ggrs (library part, shared by the `vcheck`
//! binary and the cargo-fuzz targets under /verif/fuzz).
pub mod alloc_count;
pub mod engine;
pub mod gen;
pub mod props;
pub mod sim;
