//! Simulated network. A packet's fate (drop / duplicate / latency) is a pure function of
//! (net seed, from, to, per-link packet counter) plus explicit fault items; it never depends on
//! the global order in which sessions happen to send (DESIGN §10 rule 5).
use super::types::*;
use super::wire::*;
use ggrs::{Message, NonBlockingSocket};
use serde::{Deserialize, Serialize};
use std::cell::RefCell;
use std::collections::{BTreeMap, BTreeSet};
use std::rc::Rc;

#[derive(Clone, Copy, Debug, Default, Serialize, Deserialize, PartialEq, Eq, Hash)]
pub struct LinkProfile {
    /// percent of packets dropped
    pub loss: u8,
    /// percent of packets duplicated
    pub dup: u8,
    /// latency range in ms (inclusive); lat_max > lat_min causes reordering
    pub lat_min: u16,
    pub lat_max: u16,
}

/// Explicit per-packet fault: applies to the k-th (1-based) packet sent on the directed link.
#[derive(Clone, Copy, Debug, Serialize, Deserialize, PartialEq, Eq, Hash)]
pub enum Fault {
    Drop { from: Addr, to: Addr, k: u32 },
    Dup { from: Addr, to: Addr, k: u32 },
    Delay { from: Addr, to: Addr, k: u32, ms: u16 },
}

pub fn now_ms() -> u64 {
    ggrs::verif_hooks::clock::now_millis()
}

pub struct Packet {
    pub at: u64,
    pub key: (u8, u64, u8),
    pub from: Addr,
    pub msg: Message,
}

#[derive(Clone, Debug)]
pub struct LinkLedger {
    pub sent: [u64; NCLASS],
    pub dropped: [u64; NCLASS],
    pub delivered: [u64; NCLASS],
    pub duplicated: u64,
    pub delayed: u64,
    /// newest input frame contained in any packet handed to the network / to the receiver
    pub input_sent_max: i32,
    pub input_delivered_max: i32,
    pub ack_delivered_max: i32,
    pub sync_req_sent: Vec<u32>,
    /// (ms, nonce) of every SyncReply handed to the receiver
    pub sync_reply_delivered: Vec<(u64, u32)>,
    /// virtual time at which the receiver was last handed a packet of this link
    pub last_delivery_ms: u64,
    /// every instant at which the receiver was handed at least one packet of this link
    pub delivery_ms: Vec<u64>,
    /// index (per receiving socket) of every receive call that handed over >= 1 packet of this link
    pub delivery_calls: Vec<u64>,
    pub ever_delivered: bool,
    pub last_input: Option<MMessage>,
    pub last_any: Option<MMessage>,
    /// every input payload sent (only when `keep_payloads`)
    pub payloads: Vec<Vec<u8>>,
    /// first time an Input packet was sent / delivered
    pub first_input_sent_ms: Option<u64>,
}

#[derive(Default)]
pub struct LinkState {
    pub profile: Option<LinkProfile>,
    pub counter: u64,
    pub down_until: u64,
    pub dead: bool,
    pub drop_k: BTreeSet<u64>,
    pub dup_k: BTreeSet<u64>,
    pub delay_k: BTreeMap<u64, u64>,
    /// packets sent before this instant are held back by `slow_extra` ms (Op::Slow)
    pub slow_until: u64,
    pub slow_extra: u64,
    /// the next packet of this class sent on the link is lost (Op::DropNext), not subject to heal
    pub drop_next_class: Option<usize>,
    /// every packet of this class sent on the link before the given instant is lost (Op::DropClass)
    pub drop_class_until: Option<(usize, u64)>,
    pub ledger: LinkLedger,
}

pub struct NetInner {
    pub seed: u64,
    pub default_profile: LinkProfile,
    pub links: BTreeMap<(Addr, Addr), LinkState>,
    pub inbox: BTreeMap<Addr, Vec<Packet>>,
    pub healed: bool,
    pub forged_seq: u64,
    pub forged: u64,
    pub keep_payloads: bool,
    /// time of every receive_all_messages call per socket (== every poll of that session)
    pub recv_log: BTreeMap<Addr, Vec<u64>>,
    pub log: bool,
    /// (ms, from, to, class, start_frame/ack) of every packet, only when `log`
    pub trace: Vec<String>,
}
pub type Net = Rc<RefCell<NetInner>>;

/// number of input frames encoded in a (well-formed) payload, decoded by a small independent
/// reference decoder (never calls the code under test).
pub fn ref_payload_frames(bytes: &[u8]) -> Option<usize> {
    let raw = ref_rle_decode(bytes, 1 << 24)?;
    let mut pos = 0;
    let mut n = 0;
    while pos < raw.len() {
        if pos + 2 > raw.len() {
            return None;
        }
        let len = u16::from_le_bytes([raw[pos], raw[pos + 1]]) as usize;
        pos += 2;
        if pos + len > raw.len() {
            return None;
        }
        pos += len;
        n += 1;
    }
    Some(n)
}

/// Independent, bounds-checked decoder of the bitfield-rle format.
pub fn ref_rle_decode(buf: &[u8], cap: usize) -> Option<Vec<u8>> {
    let mut out = Vec::new();
    let mut off = 0usize;
    while off < buf.len() {
        // varint
        let mut val: u64 = 0;
        let mut shift = 0u32;
        loop {
            let b = *buf.get(off)?;
            off += 1;
            if shift >= 64 {
                return None;
            }
            val = val.checked_add(((b & 127) as u64).checked_shl(shift)?)?;
            shift += 7;
            if b & 128 == 0 {
                break;
            }
        }
        if val & 1 == 1 {
            let len = (val >> 2) as usize;
            if out.len().checked_add(len)? > cap {
                return None;
            }
            let fill = if val & 2 != 0 { 255u8 } else { 0u8 };
            out.resize(out.len() + len, fill);
        } else {
            let len = (val >> 1) as usize;
            let end = off.checked_add(len)?;
            if end > buf.len() || out.len() + len > cap {
                return None;
            }
            out.extend_from_slice(&buf[off..end]);
            off = end;
        }
    }
    Some(out)
}

impl NetInner {
    /// number of receive calls `me` has made so far
    pub fn recv_calls(&self, me: Addr) -> u64 {
        self.recv_log.get(&me).map(|l| l.len() as u64).unwrap_or(0)
    }
    /// did any packet reach `me` in a receive call with index in `from..to`?
    pub fn delivered_in_calls(&self, me: Addr, from: u64, to: u64) -> bool {
        self.links.iter().any(|((_, t), l)| *t == me && l.ledger.delivery_calls.iter().rev().take_while(|c| **c >= from).any(|c| *c < to))
    }
    pub fn new(seed: u64, default_profile: LinkProfile) -> Self {
        NetInner {
            seed,
            default_profile,
            links: BTreeMap::new(),
            inbox: BTreeMap::new(),
            healed: false,
            forged_seq: 0,
            forged: 0,
            keep_payloads: false,
            recv_log: BTreeMap::new(),
            log: false,
            trace: Vec::new(),
        }
    }
    pub fn link(&mut self, a: Addr, b: Addr) -> &mut LinkState {
        self.links.entry((a, b)).or_default()
    }
    pub fn ledger(&self, a: Addr, b: Addr) -> Option<&LinkLedger> {
        self.links.get(&(a, b)).map(|l| &l.ledger)
    }
    pub fn add_fault(&mut self, f: Fault) {
        match f {
            Fault::Drop { from, to, k } => {
                self.link(from, to).drop_k.insert(k as u64);
            }
            Fault::Dup { from, to, k } => {
                self.link(from, to).dup_k.insert(k as u64);
            }
            Fault::Delay { from, to, k, ms } => {
                self.link(from, to).delay_k.insert(k as u64, ms as u64);
            }
        }
    }
    /// Faults off from now on: no loss, no duplication, no explicit faults, no outages.
    /// Latency profiles and dead links stay.
    pub fn heal(&mut self) {
        self.healed = true;
        for l in self.links.values_mut() {
            l.down_until = 0;
        }
    }
    pub fn kill_link(&mut self, a: Addr, b: Addr) {
        self.link(a, b).dead = true;
    }
    /// every packet sent on a->b during the next `len_ms` is delivered `extra_ms` late (not subject to heal)
    pub fn slow(&mut self, a: Addr, b: Addr, len_ms: u64, extra_ms: u64) {
        let until = now_ms() + len_ms;
        let l = self.link(a, b);
        l.slow_until = until;
        l.slow_extra = extra_ms;
    }
    pub fn drop_class(&mut self, a: Addr, b: Addr, class: usize, len_ms: u64) {
        let until = now_ms() + len_ms;
        self.link(a, b).drop_class_until = Some((class, until));
    }
    pub fn drop_next(&mut self, a: Addr, b: Addr, class: usize) {
        self.link(a, b).drop_next_class = Some(class);
    }
    pub fn outage(&mut self, a: Addr, b: Addr, len_ms: u64) {
        let until = now_ms() + len_ms;
        let l = self.link(a, b);
        l.down_until = l.down_until.max(until);
    }
    pub fn in_flight(&self) -> usize {
        self.inbox.values().map(|v| v.len()).sum()
    }

    fn send(&mut self, from: Addr, to: Addr, msg: &Message) {
        let now = now_ms();
        let seed = self.seed;
        let default_profile = self.default_profile;
        let healed = self.healed;
        let keep = self.keep_payloads;
        let log = self.log;
        let mm = to_mirror(msg);
        let class = class_of(&mm) as usize;
        let l = self.links.entry((from, to)).or_default();
        l.counter += 1;
        let k = l.counter;
        let prof = l.profile.unwrap_or(default_profile);
        l.ledger.sent[class] += 1;
        match &mm.body {
            MBody::Input { start_frame, bytes, .. } => {
                if let Some(n) = ref_payload_frames(bytes) {
                    if n > 0 {
                        l.ledger.input_sent_max = l.ledger.input_sent_max.max(start_frame + n as i32 - 1);
                    }
                }
                if l.ledger.first_input_sent_ms.is_none() {
                    l.ledger.first_input_sent_ms = Some(now);
                }
                if keep {
                    l.ledger.payloads.push(bytes.clone());
                }
                l.ledger.last_input = Some(mm.clone());
            }
            MBody::SyncRequest { random_request } => l.ledger.sync_req_sent.push(*random_request),
            _ => {}
        }
        l.ledger.last_any = Some(mm.clone());
        // fate: fixed draw order, pure function of (seed, from, to, k)
        let mut r = Rng(mix(mix(mix(seed, from as u64), to as u64), k));
        let d_loss = r.below(100);
        let d_dup = r.below(100);
        let d_lat0 = r.next();
        let d_lat1 = r.next();
        let mut dropped = l.dead || now < l.down_until;
        let mut copies = 1;
        let mut extra = 0;
        if !healed {
            if d_loss < prof.loss as u64 || l.drop_k.contains(&k) {
                dropped = true;
            }
            if d_dup < prof.dup as u64 || l.dup_k.contains(&k) {
                copies = 2;
            }
            if let Some(ms) = l.delay_k.get(&k) {
                extra = *ms;
                l.ledger.delayed += 1;
            }
        }
        if now < l.slow_until {
            extra += l.slow_extra;
            l.ledger.delayed += 1;
        }
        if l.drop_next_class == Some(class) {
            l.drop_next_class = None;
            dropped = true;
        }
        if let Some((c, until)) = l.drop_class_until {
            if c == class && now < until {
                dropped = true;
            }
        }
        if log {
            let desc = match &mm.body {
                MBody::Input { start_frame, ack_frame, bytes, .. } => format!(
                    "Input start={} n={:?} ack={}",
                    start_frame,
                    ref_payload_frames(bytes),
                    ack_frame
                ),
                other => format!("{:?}", other),
            };
            self.trace.push(format!(
                "[{}] {}->{} #{} {}{}",
                now,
                from,
                to,
                k,
                desc,
                if dropped { " DROPPED" } else if copies > 1 { " DUP" } else { "" }
            ));
        }
        let l = self.links.get_mut(&(from, to)).unwrap();
        if dropped {
            l.ledger.dropped[class] += 1;
            return;
        }
        if copies > 1 {
            l.ledger.duplicated += 1;
        }
        let span = (prof.lat_max.max(prof.lat_min) - prof.lat_min) as u64 + 1;
        for c in 0..copies {
            let d = if c == 0 { d_lat0 } else { d_lat1 };
            let lat = prof.lat_min as u64 + d % span + extra;
            self.inbox.entry(to).or_default().push(Packet {
                at: now + lat,
                key: (from, k, c as u8),
                from,
                msg: msg.clone(),
            });
        }
    }

    /// Forged packet: delivered at `now`, after all real packets of that instant. Consumes no fate.
    /// `authentic_looking`: the packet carries the sender's real magic, so the receiver treats it as
    /// a sign of life (recorded as a delivery instant for the timing predictor, nothing else).
    pub fn inject(&mut self, from: Addr, to: Addr, msg: Message, authentic_looking: bool) {
        self.forged_seq += 1;
        self.forged += 1;
        let seq = self.forged_seq;
        self.inbox.entry(to).or_default().push(Packet {
            at: now_ms(),
            key: (255, seq, authentic_looking as u8),
            from,
            msg,
        });
    }

    fn recv(&mut self, me: Addr) -> Vec<(Addr, Message)> {
        let now = now_ms();
        let log = self.recv_log.entry(me).or_default();
        let call = log.len() as u64;
        log.push(now);
        let Some(q) = self.inbox.get_mut(&me) else {
            return Vec::new();
        };
        if q.is_empty() {
            return Vec::new();
        }
        let mut due: Vec<Packet> = Vec::new();
        let mut rest: Vec<Packet> = Vec::with_capacity(q.len());
        for p in q.drain(..) {
            if p.at <= now {
                due.push(p);
            } else {
                rest.push(p);
            }
        }
        *q = rest;
        due.sort_by_key(|p| (p.at, p.key));
        let mut out = Vec::with_capacity(due.len());
        for p in due {
            if p.key.0 == 255 && p.key.2 == 1 {
                let l = self.links.entry((p.from, me)).or_default();
                if l.ledger.delivery_ms.last() != Some(&now) {
                    l.ledger.delivery_ms.push(now);
                }
                if l.ledger.delivery_calls.last() != Some(&call) {
                    l.ledger.delivery_calls.push(call);
                }
            }
            if p.key.0 != 255 {
                let mm = to_mirror(&p.msg);
                let class = class_of(&mm) as usize;
                let l = self.links.entry((p.from, me)).or_default();
                l.ledger.delivered[class] += 1;
                l.ledger.last_delivery_ms = now;
                if l.ledger.delivery_ms.last() != Some(&now) {
                    l.ledger.delivery_ms.push(now);
                }
                if l.ledger.delivery_calls.last() != Some(&call) {
                    l.ledger.delivery_calls.push(call);
                }
                l.ledger.ever_delivered = true;
                match &mm.body {
                    MBody::Input { start_frame, ack_frame, bytes, .. } => {
                        if let Some(n) = ref_payload_frames(bytes) {
                            if n > 0 {
                                l.ledger.input_delivered_max =
                                    l.ledger.input_delivered_max.max(start_frame + n as i32 - 1);
                            }
                        }
                        l.ledger.ack_delivered_max = l.ledger.ack_delivered_max.max(*ack_frame);
                    }
                    MBody::InputAck { ack_frame } => {
                        l.ledger.ack_delivered_max = l.ledger.ack_delivered_max.max(*ack_frame);
                    }
                    MBody::SyncReply { random_reply } => {
                        l.ledger.sync_reply_delivered.push((now, *random_reply));
                    }
                    _ => {}
                }
            }
            out.push((p.from, p.msg));
        }
        out
    }
}

pub fn new_net(seed: u64, default_profile: LinkProfile) -> Net {
    Rc::new(RefCell::new(NetInner::new(seed, default_profile)))
}

impl Default for LinkLedger {
    fn default() -> Self {
        LinkLedger {
            sent: [0; NCLASS],
            dropped: [0; NCLASS],
            delivered: [0; NCLASS],
            duplicated: 0,
            delayed: 0,
            input_sent_max: -1,
            input_delivered_max: -1,
            ack_delivered_max: -1,
            sync_req_sent: Vec::new(),
            sync_reply_delivered: Vec::new(),
            last_delivery_ms: 0,
            delivery_ms: Vec::new(),
            delivery_calls: Vec::new(),
            ever_delivered: false,
            last_input: None,
            last_any: None,
            payloads: Vec::new(),
            first_input_sent_ms: None,
        }
    }
}

pub struct SimSocket {
    pub me: Addr,
    pub net: Net,
}
impl NonBlockingSocket<Addr> for SimSocket {
    fn send_to(&mut self, msg: &Message, addr: &Addr) {
        self.net.borrow_mut().send(self.me, *addr, msg);
    }
    fn receive_all_messages(&mut self) -> Vec<(Addr, Message)> {
        self.net.borrow_mut().recv(self.me)
    }
}
