//! Input types, Config instantiations and small deterministic helpers shared by the simulator.
use ggrs::{Config, InputPredictor};
use serde::{de::DeserializeOwned, Deserialize, Serialize};
use std::fmt::Debug;
use std::marker::PhantomData;

/// Address type of every simulated session: players are 1..=N, spectators 101.., strangers 200+.
pub type Addr = u8;

pub fn peer_addr(idx: usize) -> Addr {
    idx as u8 + 1
}
pub fn spec_addr(idx: usize) -> Addr {
    101 + idx as u8
}

/// Harness-side view of an input value: every input type maps a small integer domain
/// injectively, with 0 <-> Default.
pub trait HInp:
    Copy + Clone + PartialEq + Default + Serialize + DeserializeOwned + Debug + 'static
{
    fn from_v(v: u32) -> Self;
    fn to_v(self) -> u32;
    const BYTES: usize;
}

/// 1-byte input (bincode: 1 byte).
#[derive(Copy, Clone, PartialEq, Eq, Default, Debug, Serialize, Deserialize, Hash)]
pub struct I1(pub u8);
impl HInp for I1 {
    fn from_v(v: u32) -> Self {
        I1(v as u8)
    }
    fn to_v(self) -> u32 {
        self.0 as u32
    }
    const BYTES: usize = 1;
}

/// 4-byte input (bincode: u16 + u8 + u8).
#[derive(Copy, Clone, PartialEq, Eq, Default, Debug, Serialize, Deserialize, Hash)]
pub struct I4 {
    pub a: u16,
    pub b: u8,
    pub c: u8,
}
impl HInp for I4 {
    fn from_v(v: u32) -> Self {
        I4 {
            a: (v as u16).wrapping_mul(257),
            b: (v as u8).wrapping_mul(17),
            c: if v % 2 == 1 { 0xff } else { 0 },
        }
    }
    fn to_v(self) -> u32 {
        // inverse of from_v on 0..=254; anything else maps to a value outside the domain
        let v = (self.a / 257) as u32;
        if Self::from_v(v) == self {
            v
        } else {
            0xffff_0000 | self.a as u32
        }
    }
    const BYTES: usize = 4;
}

/// Game state saved into GGRS cells.
#[derive(Clone, Debug, PartialEq, Eq)]
pub struct St {
    pub frame: i32,
    pub hash: u64,
}

pub struct Cfg<I, P>(PhantomData<(I, P)>);
impl<I, P> Debug for Cfg<I, P> {
    fn fmt(&self, f: &mut std::fmt::Formatter<'_>) -> std::fmt::Result {
        write!(f, "Cfg")
    }
}
impl<I: HInp, P: InputPredictor<I> + 'static> Config for Cfg<I, P> {
    type Input = I;
    type InputPredictor = P;
    type State = St;
    type Address = Addr;
}

/// splitmix-style mixing; the only source of pseudo-randomness inside a case besides the
/// proptest-generated scenario itself. Everything is a pure function of scenario fields.
pub fn mix(h: u64, v: u64) -> u64 {
    let mut z = h ^ v.wrapping_mul(0x9E37_79B9_7F4A_7C15);
    z = z.wrapping_add(0x632B_E59B_D9B4_E019);
    z = (z ^ (z >> 30)).wrapping_mul(0xBF58_476D_1CE4_E5B9);
    z = (z ^ (z >> 27)).wrapping_mul(0x94D0_49BB_1331_11EB);
    z ^ (z >> 31)
}

pub struct Rng(pub u64);
impl Rng {
    pub fn next(&mut self) -> u64 {
        self.0 = self.0.wrapping_add(0x9E37_79B9_7F4A_7C15);
        let mut z = self.0;
        z = (z ^ (z >> 30)).wrapping_mul(0xBF58_476D_1CE4_E5B9);
        z = (z ^ (z >> 27)).wrapping_mul(0x94D0_49BB_1331_11EB);
        z ^ (z >> 31)
    }
    pub fn below(&mut self, n: u64) -> u64 {
        if n == 0 {
            0
        } else {
            self.next() % n
        }
    }
    pub fn chance(&mut self, pct: u64) -> bool {
        pct > 0 && self.below(100) < pct
    }
}

/// The input a player "really presses" at user frame `f`: pure function of (seed, handle, f),
/// held for 1/3/5 frames depending on the handle so that repeat-last predictions are sometimes
/// right and sometimes wrong. Domain 0..vals (0 == default input).
pub fn true_input(seed: u64, handle: usize, f: i32, vals: u32) -> u32 {
    let k = 1 + (handle as i32 % 3) * 2;
    (mix(mix(seed ^ 0xABCD, handle as u64), (f / k) as u64) % vals.max(1) as u64) as u32
}

pub const HASH0: u64 = 0x1234_5678_9abc_def0;

/// One step of the game: fold (frame, every player's (value, disconnected-flag)) into the hash.
/// Predicted vs Confirmed is deliberately not hashed; Disconnected is.
pub fn step_hash(h: u64, frame: i32, inputs: &[(u32, u8)]) -> u64 {
    let mut h = mix(h, frame as u64 ^ 0x5151);
    for (i, (v, st)) in inputs.iter().enumerate() {
        let d = (*st == ST_DISC) as u64;
        h = mix(h, (i as u64) << 40 | (*v as u64) << 1 | d);
    }
    h
}

pub const ST_CONF: u8 = 0;
pub const ST_PRED: u8 = 1;
pub const ST_DISC: u8 = 2;

pub fn status_code(s: ggrs::InputStatus) -> u8 {
    match s {
        ggrs::InputStatus::Confirmed => ST_CONF,
        ggrs::InputStatus::Predicted => ST_PRED,
        ggrs::InputStatus::Disconnected => ST_DISC,
    }
}
