//! The game: a strict executor of GGRS requests. It checks every request as it executes it
//! (property C02) and keeps, per frame, the inputs of the LAST simulation of that frame, the state
//! hash after it and simulation counts, which the other oracles read.
use super::types::*;
use ggrs::{Config, GgrsRequest};
use std::collections::BTreeMap;

pub const CORRUPT_XOR: u64 = 0x0bad_c0de_dead_beef;

#[derive(Clone, Debug)]
pub struct Adv {
    pub frame: i32,
    pub inputs: Vec<(u32, u8)>,
    pub first: bool,
}

#[derive(Clone, Debug, Default)]
pub struct GameStats {
    pub saves: u64,
    pub loads: u64,
    pub loads_verified: u64,
    pub first_sims: u64,
    pub resims: u64,
    pub max_rollback: i32,
    pub rollback_frames: u64,
}

pub struct Game {
    pub st: St,
    pub nplayers: usize,
    pub timeline: Vec<Vec<(u32, u8)>>,
    pub after: Vec<u64>,
    /// prefix[f] = state hash at the start of frame f recomputed from `timeline` (independent of st)
    pub prefix: Vec<u64>,
    pub sim_count: Vec<u32>,
    /// what the last Save of frame f stored (hash), and the checksum handed to GGRS
    pub last_saved: BTreeMap<i32, (u64, u128)>,
    /// every checksum ever saved for a frame (C09 event cross-check)
    pub saved_checksums: BTreeMap<i32, Vec<u128>>,
    pub stats: GameStats,
    pub errors: Vec<(&'static str, String)>,
    /// C09: from this frame on the state really diverges (deterministically)
    pub corrupt_from: Option<i32>,
    /// C13: non-determinism: extra xor as a function of (frame, simulation index of that frame)
    pub perturb: Option<Box<dyn Fn(i32, u32) -> u64>>,
    /// lockstep sessions must never save or load (C04)
    pub lockstep: bool,
    /// rollback-mode sessions must save frame 0 before simulating it (C02)
    pub expect_save0: bool,
    pub max_prediction: i32,
    /// request-kind trace of the current call (1 save, 2 load, 3 advance), reset by caller
    pub call_kinds: Vec<(u8, i32)>,
    /// frames < this were discarded to bound memory in very long runs (unused: we keep all)
    pub keep_all: bool,
    /// the game keeps its snapshots itself and hands GGRS only the checksum: cell.save(frame, None, Some(cs))
    pub own_snapshots: bool,
    pub own: BTreeMap<i32, St>,
    /// save without a checksum
    pub no_checksum: bool,
    /// checksum = one bit of the state
    pub weak_checksum: bool,
}

pub fn checksum_of(hash: u64) -> u128 {
    (hash as u128) | ((hash.rotate_left(17) ^ 0x55aa) as u128) << 64
}

impl Game {
    pub fn new(nplayers: usize, max_prediction: usize, rollback_session: bool) -> Self {
        Game {
            st: St { frame: 0, hash: HASH0 },
            nplayers,
            timeline: Vec::new(),
            after: Vec::new(),
            prefix: vec![HASH0],
            sim_count: Vec::new(),
            last_saved: BTreeMap::new(),
            saved_checksums: BTreeMap::new(),
            stats: GameStats::default(),
            errors: Vec::new(),
            corrupt_from: None,
            perturb: None,
            lockstep: rollback_session && max_prediction == 0,
            expect_save0: rollback_session && max_prediction > 0,
            max_prediction: max_prediction as i32,
            call_kinds: Vec::new(),
            keep_all: true,
            own_snapshots: false,
            own: BTreeMap::new(),
            no_checksum: false,
            weak_checksum: false,
        }
    }

    fn err(&mut self, clause: &'static str, msg: String) {
        if self.errors.len() < 20 {
            self.errors.push((clause, msg));
        }
    }

    fn step(&self, h: u64, frame: i32, inputs: &[(u32, u8)], sim_index: u32, with_perturb: bool) -> u64 {
        let mut h = step_hash(h, frame, inputs);
        if let Some(cf) = self.corrupt_from {
            if frame >= cf {
                h ^= CORRUPT_XOR;
            }
        }
        if with_perturb {
            if let Some(p) = &self.perturb {
                h ^= p(frame, sim_index);
            }
        }
        h
    }

    pub fn handle<T: Config<State = St>>(
        &mut self,
        reqs: Vec<GgrsRequest<T>>,
        to_v: impl Fn(T::Input) -> u32,
    ) -> Vec<Adv> {
        let mut advs = Vec::new();
        self.call_kinds.clear();
        for r in reqs {
            match r {
                GgrsRequest::SaveGameState { cell, frame } => {
                    self.call_kinds.push((1, frame));
                    self.stats.saves += 1;
                    if self.lockstep {
                        self.err("C04.lockstep_save", format!("SaveGameState({frame}) in lockstep mode"));
                    }
                    if frame != self.st.frame {
                        self.err(
                            "C02.save_frame",
                            format!("SaveGameState names frame {} but the game is at frame {}", frame, self.st.frame),
                        );
                    }
                    let cs = if self.weak_checksum { (self.st.hash & 1) as u128 } else { checksum_of(self.st.hash) };
                    self.last_saved.insert(frame, (self.st.hash, cs));
                    let v = self.saved_checksums.entry(frame).or_default();
                    if v.last() != Some(&cs) {
                        v.push(cs);
                    }
                    if self.own_snapshots {
                        self.own.insert(frame, self.st.clone());
                        while self.own.len() > 64 {
                            let k = *self.own.keys().next().unwrap();
                            self.own.remove(&k);
                        }
                        cell.save(frame, None, if self.no_checksum { None } else { Some(cs) });
                    } else {
                        cell.save(frame, Some(self.st.clone()), if self.no_checksum { None } else { Some(cs) });
                    }
                }
                GgrsRequest::LoadGameState { cell, frame } => {
                    self.call_kinds.push((2, frame));
                    self.stats.loads += 1;
                    if self.lockstep {
                        self.err("C04.lockstep_load", format!("LoadGameState({frame}) in lockstep mode"));
                    }
                    if frame >= self.st.frame {
                        self.err(
                            "C02.load_not_earlier",
                            format!("LoadGameState({}) while the game is at frame {}", frame, self.st.frame),
                        );
                    }
                    let depth = self.st.frame - frame;
                    self.stats.max_rollback = self.stats.max_rollback.max(depth);
                    self.stats.rollback_frames += depth.max(0) as u64;
                    if depth > self.max_prediction {
                        self.err(
                            "C04.load_depth",
                            format!(
                                "LoadGameState({}) is {} frames behind the game frame {} (max_prediction {})",
                                frame, depth, self.st.frame, self.max_prediction
                            ),
                        );
                    }
                    let loaded = if self.own_snapshots { self.own.get(&frame).cloned() } else { cell.load() };
                    match loaded {
                        None => self.err("C02.load_empty", format!("LoadGameState({frame}): cell is empty")),
                        Some(s) => {
                            let mut ok = true;
                            if s.frame != frame {
                                ok = false;
                                self.err(
                                    "C02.load_cell_frame",
                                    format!("LoadGameState({}): cell holds the state of frame {}", frame, s.frame),
                                );
                            }
                            match self.last_saved.get(&frame) {
                                Some((h, _)) if *h == s.hash => {}
                                other => {
                                    ok = false;
                                    self.err(
                                        "C02.load_not_last_saved",
                                        format!(
                                            "LoadGameState({}): cell content {:x} is not what was last saved for that frame ({:?})",
                                            frame, s.hash, other.map(|x| x.0)
                                        ),
                                    );
                                }
                            }
                            if self.perturb.is_none() && frame >= 0 && (frame as usize) < self.prefix.len() {
                                let expect = self.prefix[frame as usize];
                                if s.hash != expect {
                                    ok = false;
                                    self.err(
                                        "C02.load_stale",
                                        format!(
                                            "LoadGameState({}): loaded state is not the state of frame {} on the current timeline",
                                            frame, frame
                                        ),
                                    );
                                }
                            }
                            if ok {
                                self.stats.loads_verified += 1;
                            }
                            self.st = s;
                            // make the game robust against a wrong cell so later checks stay meaningful
                            self.st.frame = frame;
                        }
                    }
                }
                GgrsRequest::AdvanceFrame { inputs } => {
                    let f = self.st.frame;
                    self.call_kinds.push((3, f));
                    if inputs.len() != self.nplayers {
                        self.err(
                            "C02.inputs_len",
                            format!("AdvanceFrame carries {} inputs for {} players", inputs.len(), self.nplayers),
                        );
                    }
                    let ins: Vec<(u32, u8)> = inputs.iter().map(|(i, s)| (to_v(*i), status_code(*s))).collect();
                    let fu = f as usize;
                    let first = fu >= self.timeline.len();
                    if fu > self.timeline.len() {
                        self.err(
                            "C02.gap",
                            format!("AdvanceFrame at frame {} but only {} frames were ever simulated", f, self.timeline.len()),
                        );
                        // fill so indices stay valid
                        while self.timeline.len() < fu {
                            self.timeline.push(ins.clone());
                            self.after.push(0);
                            self.sim_count.push(0);
                            let last = *self.prefix.last().unwrap();
                            self.prefix.push(last);
                        }
                    }
                    if f == 0 && first && self.expect_save0 && !self.last_saved.contains_key(&0) {
                        self.err("C02.save0", "first simulation of frame 0 not preceded by SaveGameState(0)".into());
                    }
                    let idx = if first { 0 } else { self.sim_count[fu] };
                    self.st.hash = self.step(self.st.hash, f, &ins, idx, true);
                    let p = self.step(self.prefix[fu], f, &ins, idx, false);
                    self.prefix.truncate(fu + 1);
                    self.prefix.push(p);
                    if first {
                        self.stats.first_sims += 1;
                        self.timeline.push(ins.clone());
                        self.after.push(self.st.hash);
                        self.sim_count.push(1);
                    } else {
                        self.stats.resims += 1;
                        self.timeline[fu] = ins.clone();
                        self.after[fu] = self.st.hash;
                        self.sim_count[fu] += 1;
                    }
                    self.st.frame += 1;
                    advs.push(Adv { frame: f, inputs: ins, first });
                }
            }
        }
        advs
    }
}
