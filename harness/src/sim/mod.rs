pub mod game;
pub mod net;
pub mod scenario;
pub mod types;
pub mod wire;
pub mod world;
