//! Mirror of `ggrs::Message` with the same serde shape. `Message`'s fields are private but it is
//! Serialize + Deserialize, so converting through bincode lets the harness inspect and forge packets.
use serde::{Deserialize, Serialize};

#[derive(Serialize, Deserialize, Clone, Debug, PartialEq, Eq)]
pub struct MConn {
    pub disconnected: bool,
    pub last_frame: i32,
}
#[derive(Serialize, Deserialize, Clone, Debug, PartialEq, Eq)]
pub struct MHeader {
    pub magic: u16,
}
#[derive(Serialize, Deserialize, Clone, Debug, PartialEq, Eq)]
pub enum MBody {
    SyncRequest {
        random_request: u32,
    },
    SyncReply {
        random_reply: u32,
    },
    Input {
        peer_connect_status: Vec<MConn>,
        disconnect_requested: bool,
        start_frame: i32,
        ack_frame: i32,
        bytes: Vec<u8>,
    },
    InputAck {
        ack_frame: i32,
    },
    QualityReport {
        frame_advantage: i16,
        ping: u128,
    },
    QualityReply {
        pong: u128,
    },
    ChecksumReport {
        checksum: u128,
        frame: i32,
    },
    KeepAlive,
}
#[derive(Serialize, Deserialize, Clone, Debug, PartialEq, Eq)]
pub struct MMessage {
    pub header: MHeader,
    pub body: MBody,
}

pub fn to_mirror(m: &ggrs::Message) -> MMessage {
    bincode::deserialize(&bincode::serialize(m).expect("serialize Message")).expect("mirror shape")
}
pub fn from_mirror(m: &MMessage) -> ggrs::Message {
    bincode::deserialize(&bincode::serialize(m).expect("serialize mirror")).expect("Message shape")
}

#[derive(Copy, Clone, Debug, PartialEq, Eq, PartialOrd, Ord, Hash)]
pub enum Class {
    SyncRequest = 0,
    SyncReply = 1,
    Input = 2,
    InputAck = 3,
    QualityReport = 4,
    QualityReply = 5,
    ChecksumReport = 6,
    KeepAlive = 7,
}
pub const NCLASS: usize = 8;

pub fn class_of(m: &MMessage) -> Class {
    match m.body {
        MBody::SyncRequest { .. } => Class::SyncRequest,
        MBody::SyncReply { .. } => Class::SyncReply,
        MBody::Input { .. } => Class::Input,
        MBody::InputAck { .. } => Class::InputAck,
        MBody::QualityReport { .. } => Class::QualityReport,
        MBody::QualityReply { .. } => Class::QualityReply,
        MBody::ChecksumReport { .. } => Class::ChecksumReport,
        MBody::KeepAlive => Class::KeepAlive,
    }
}
