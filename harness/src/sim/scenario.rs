//! A case: a plain serialisable value that, together with the code under test, fully determines a
//! simulated multi-session run. Replay files are the JSON form of this struct.
use super::net::{Fault, LinkProfile};
use serde::{Deserialize, Serialize};

#[derive(Clone, Debug, Serialize, Deserialize, PartialEq, Eq, Hash)]
pub struct PeerSpec {
    /// number of local players on this peer (>= 1, or 0 for a "no local player" misuse config)
    pub locals: u8,
    /// builder input delay
    pub delay: u8,
    /// percent of rounds in which this peer only polls instead of ticking
    pub slow: u8,
    /// use advance_frame_with_wait() instead of advance_frame()
    #[serde(default)]
    pub use_wait: bool,
    /// this peer's game saves its states without a checksum (cell.save(frame, data, None)): it never reports
    /// checksums, whatever the others do
    #[serde(default)]
    pub no_checksum: bool,
}

#[derive(Clone, Debug, Serialize, Deserialize, PartialEq, Eq, Hash)]
pub struct SpecSpec {
    /// index of the host peer
    pub host: u8,
    pub max_behind: u8,
    pub catchup: u8,
    pub slow: u8,
    /// max_prediction_window given to the spectator's builder (sizes its receive history)
    pub window: u8,
}

#[derive(Clone, Debug, Serialize, Deserialize, PartialEq, Eq, Hash)]
pub enum Op {
    /// change the input delay of a local player (C11)
    SetDelay { tick: u32, handle: u8, delay: u8 },
    /// peer stops running for good; its links go dead for new packets (in-flight ones still arrive)
    Kill { tick: u32, peer: u8 },
    /// directed link goes dead for good (used to split a dying peer's last packets, to mute a spectator)
    LinkDown { tick: u32, from: u8, to: u8 },
    /// temporary outage of a directed link
    Outage { tick: u32, from: u8, to: u8, len_ms: u32 },
    /// node (peer index, or 100+spectator index) does nothing at all for `ticks` rounds
    Pause { tick: u32, node: u8, ticks: u32 },
    /// explicit disconnect_player call on `peer` for `handle`
    Disconnect { tick: u32, peer: u8, handle: u8 },
    /// switch all probabilistic faults off / on (phase control)
    Heal { tick: u32 },
    /// set the profile of every link (loss phase)
    Profile { tick: u32, profile: LinkProfile },
    /// forged packet (C08): see world::forge
    Forge { tick: u32, to: u8, from: u8, kind: u8, a: i32, b: i32, bytes: Vec<u8> },
    /// API misuse call (C16): see world::misuse
    Misuse { tick: u32, peer: u8, kind: u8, arg: u8 },
    /// game of `peer` really diverges from `frame` on (C09 detection half)
    Corrupt { peer: u8, frame: i32 },
    /// every packet sent on the directed link during the next `len_ms` arrives `extra_ms` late
    Slow { tick: u32, from: u8, to: u8, len_ms: u32, extra_ms: u32 },
    /// the process of `peer` is restarted on the same address (new session object, new magic, game at frame
    /// 0); only carried out while that peer has not advanced a frame yet (i.e. during the handshake)
    Restart { tick: u32, peer: u8 },
    /// the next packet of wire class `class` (sim::wire::Class) sent on the directed link is lost
    DropNext { tick: u32, from: u8, to: u8, class: u8 },
    /// every packet of wire class `class` sent on the directed link during the next `len_ms` is lost (the other
    /// classes - keep-alives, quality reports, acknowledgements - get through: the peer is alive but e.g. silent)
    DropClass { tick: u32, from: u8, to: u8, class: u8, len_ms: u32 },
}

impl Op {
    pub fn tick(&self) -> u32 {
        match self {
            Op::SetDelay { tick, .. }
            | Op::Kill { tick, .. }
            | Op::LinkDown { tick, .. }
            | Op::Outage { tick, .. }
            | Op::Pause { tick, .. }
            | Op::Disconnect { tick, .. }
            | Op::Heal { tick }
            | Op::Profile { tick, .. }
            | Op::Forge { tick, .. }
            | Op::Slow { tick, .. }
            | Op::Restart { tick, .. }
            | Op::DropNext { tick, .. }
            | Op::DropClass { tick, .. }
            | Op::Misuse { tick, .. } => *tick,
            Op::Corrupt { .. } => 0,
        }
    }
}

#[derive(Clone, Debug, Serialize, Deserialize, PartialEq, Eq, Hash)]
pub struct Scenario {
    pub seed: u64,
    pub peers: Vec<PeerSpec>,
    pub specs: Vec<SpecSpec>,
    pub max_pred: u8,
    pub sparse: bool,
    /// desync detection interval, 0 = off
    pub desync: u8,
    /// 0 = PredictRepeatLast, 1 = PredictDefault, 2 = a custom predictor x -> x | 1 (world::PredictOr1)
    pub predictor: u8,
    /// false: 1-byte input struct, true: 4-byte input struct
    pub wide: bool,
    pub fps: u16,
    pub notify_ms: u32,
    pub timeout_ms: u32,
    /// number of distinct input values (0 == default input is one of them)
    pub vals: u8,
    pub link: LinkProfile,
    pub links: Vec<(u8, u8, LinkProfile)>,
    pub faults: Vec<Fault>,
    pub ops: Vec<Op>,
    /// rounds of the generated schedule
    pub ticks: u32,
    /// rounds of the settle phase (faults off, everybody ticks every round, fixed dt)
    pub settle: u32,
    /// 0: fixed dt = 1000/fps, every node ticks every round in index order
    /// 1: dt jitter (0 / 10..21 / 40..139 ms), shuffled order, `slow` applies
    pub sched: u8,
    /// extra polls every ms between rounds (C15)
    #[serde(default)]
    pub fine_poll: bool,
    /// drain events() after every call (false: never drain, C12/C18)
    pub drain: bool,
    /// sessions only call poll_remote_clients(), never advance_frame() (C12)
    #[serde(default)]
    pub poll_only: bool,
    /// the games keep their own snapshots and save `None` data with a checksum
    #[serde(default)]
    pub own_snapshots: bool,
    /// while a frame is stalled the game submits a DIFFERENT input on every further tick (a game that samples
    /// the controller per tick); the first submission that was registered is the true input of the frame
    #[serde(default)]
    pub resubmit_varies: bool,
    /// every local input is registered twice per tick: a decoy first, then the real value (the last one counts)
    #[serde(default)]
    pub double_submit: bool,
    /// the games' checksums cover one bit of the state only (legal: a checksum need not be injective), so
    /// different states of the same frame often share a checksum
    #[serde(default)]
    pub weak_checksum: bool,
    /// how peers with `use_wait` call the lockstep wait helper and how the simulator accounts for the time they
    /// spend in it. 0: the three entry points in rotation, the wait of one peer delays everybody after it (one
    /// global clock). 1: always `advance_frame_with_wait()`; 2: the rotation; in both the peers of a round wait *in
    /// parallel*: every peer's call starts at the round's instant T, the clock is put back to T after it, and the
    /// round ends at T + the longest wait (exact for link latencies >= the wait timeout: nothing sent in a round
    /// can arrive during a wait of the same round)
    #[serde(default)]
    pub wait_mode: u8,
    /// wait_mode != 0 only: peer i's call of a round starts `phase_ms[i]` milliseconds after the round's instant
    /// (peers whose game loops are out of phase); missing entries are 0. wait_mode 3 = as 1, but always
    /// `advance_frame_with_wait_timeout(3 ms)`
    #[serde(default)]
    pub phase_ms: Vec<u8>,
}

impl Scenario {
    pub fn num_players(&self) -> usize {
        self.peers.iter().map(|p| p.locals as usize).sum()
    }
    /// owner peer of every player handle: handles are assigned to peers in order
    pub fn owners(&self) -> Vec<usize> {
        let mut v = Vec::new();
        for (i, p) in self.peers.iter().enumerate() {
            for _ in 0..p.locals {
                v.push(i);
            }
        }
        v
    }
    pub fn basic(seed: u64, npeers: usize) -> Self {
        Scenario {
            seed,
            peers: (0..npeers).map(|_| PeerSpec { locals: 1, delay: 0, slow: 0, use_wait: false, no_checksum: false }).collect(),
            specs: vec![],
            max_pred: 8,
            sparse: false,
            desync: 0,
            predictor: 0,
            wide: false,
            fps: 60,
            notify_ms: 500,
            timeout_ms: 2000,
            vals: 4,
            link: LinkProfile::default(),
            links: vec![],
            faults: vec![],
            ops: vec![],
            ticks: 300,
            settle: 120,
            sched: 0,
            fine_poll: false,
            drain: true,
            poll_only: false,
            own_snapshots: false,
            resubmit_varies: false,
            double_submit: false,
            weak_checksum: false,
            wait_mode: 0,
            phase_ms: vec![],
        }
    }
}
