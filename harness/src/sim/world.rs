//! The interpreter: runs a `Scenario` against real ggrs sessions under the virtual clock and the
//! simulated network, executes every request list with the strict game, applies the on-line
//! oracles (C01-C04, C06 step rules, C18 sampling) and returns a type-erased `Outcome` for the
//! post-hoc oracles.
use super::game::*;
use super::net::*;
use super::scenario::*;
use super::types::*;
use super::wire::*;
use ggrs::verif_hooks;
use ggrs::*;
use std::collections::BTreeMap;
use std::panic::{catch_unwind, AssertUnwindSafe};
use std::time::Duration;

#[derive(Clone, Debug, Default)]
pub struct RunOpts {
    /// xor-ed into the seed of the handshake/magic random numbers (C17 replicas)
    pub rand_xor: u64,
    pub record_trace: bool,
    pub log_net: bool,
    pub keep_payloads: bool,
    pub sample_stats: bool,
    /// re-seed the rand shim with the same value before every session is built: every session of the case draws
    /// the same magic number and the same handshake nonces (C17: coinciding random numbers)
    pub same_random_stream: bool,
}

#[derive(Clone, Debug)]
pub struct Viol {
    pub prop: &'static str,
    pub clause: String,
    pub msg: String,
    pub node: String,
    pub tick: u32,
}

#[derive(Clone, Debug, PartialEq, Eq, Hash)]
pub enum Ev {
    Synchronizing { addr: Addr, total: u32, count: u32 },
    Synchronized { addr: Addr },
    Disconnected { addr: Addr },
    Interrupted { addr: Addr, timeout: u128 },
    Resumed { addr: Addr },
    Wait { skip: u32 },
    Desync { frame: i32, local: u128, remote: u128, addr: Addr },
}
impl Ev {
    pub fn addr(&self) -> Option<Addr> {
        match self {
            Ev::Synchronizing { addr, .. }
            | Ev::Synchronized { addr }
            | Ev::Disconnected { addr }
            | Ev::Interrupted { addr, .. }
            | Ev::Resumed { addr }
            | Ev::Desync { addr, .. } => Some(*addr),
            Ev::Wait { .. } => None,
        }
    }
}
fn conv_ev<T: Config<Address = Addr>>(e: GgrsEvent<T>) -> Ev {
    match e {
        GgrsEvent::Synchronizing { addr, total, count } => Ev::Synchronizing { addr, total, count },
        GgrsEvent::Synchronized { addr } => Ev::Synchronized { addr },
        GgrsEvent::Disconnected { addr } => Ev::Disconnected { addr },
        GgrsEvent::NetworkInterrupted { addr, disconnect_timeout } => Ev::Interrupted { addr, timeout: disconnect_timeout },
        GgrsEvent::NetworkResumed { addr } => Ev::Resumed { addr },
        GgrsEvent::WaitRecommendation { skip_frames } => Ev::Wait { skip: skip_frames },
        GgrsEvent::DesyncDetected { frame, local_checksum, remote_checksum, addr } => {
            Ev::Desync { frame, local: local_checksum, remote: remote_checksum, addr }
        }
    }
}

#[derive(Clone, Debug, Default, PartialEq, Eq)]
pub struct BufMax {
    pub events: usize,
    pub outgoing: usize,
    pub checksum_hist: usize,
    pub pending_player: usize,
    pub pending_spec: usize,
    pub recv_inputs: usize,
    pub pending_checksums: usize,
    pub send_queue_after_poll: usize,
    pub ep_events: usize,
    pub sync_requests: usize,
}
impl BufMax {
    fn absorb(&mut self, b: &verif_hooks::SessionBuffers) {
        self.events = self.events.max(b.event_queue);
        self.outgoing = self.outgoing.max(b.outgoing_local_inputs);
        self.checksum_hist = self.checksum_hist.max(b.local_checksum_history);
        for e in &b.endpoints {
            if e.spectator {
                self.pending_spec = self.pending_spec.max(e.pending_output);
            } else {
                self.pending_player = self.pending_player.max(e.pending_output);
            }
            self.recv_inputs = self.recv_inputs.max(e.recv_inputs);
            self.pending_checksums = self.pending_checksums.max(e.pending_checksums);
            self.send_queue_after_poll = self.send_queue_after_poll.max(e.send_queue);
            self.ep_events = self.ep_events.max(e.event_queue);
            self.sync_requests = self.sync_requests.max(e.sync_random_requests);
        }
    }
}

#[derive(Clone, Debug, Default)]
pub struct PeerOut {
    pub addr: Addr,
    pub handles: Vec<usize>,
    pub alive: bool,
    pub panicked: bool,
    pub running: bool,
    pub current_frame: i32,
    /// confirmed_frame() as of the last successful advance_frame call
    pub last_conf: i32,
    pub timeline: Vec<Vec<(u32, u8)>>,
    pub after: Vec<u64>,
    pub sim_count: Vec<u32>,
    pub saved_checksums: BTreeMap<i32, Vec<u128>>,
    pub events: Vec<(u64, Ev)>,
    pub cs: Vec<(bool, i32)>,
    pub stats: GameStats,
    pub calls: u64,
    pub ok_calls: u64,
    pub stalls: u64,
    pub notsync_calls: u64,
    pub trace_hash: u64,
    pub trace: Vec<String>,
    pub poll_times: Vec<u64>,
    pub bufmax: [BufMax; 2],
    pub max_gap: i32,
    pub gap_eq: u64,
    pub predicted_seen: u64,
    pub predicted_corrected: u64,
    pub sticky2: u64,
    pub lockstep_stalls: u64,
    /// tick of the last call that did not advance the frame
    pub last_stall_tick: u32,
    /// Op::Restart carried out on this peer (new process on the same address during the handshake)
    pub restarts: u32,
    /// calls of the lockstep wait helper during which a packet arrived after the helper's first poll
    pub midwait_deliveries: u64,
    pub fa_samples: Vec<(i32, i32)>,
    /// (ms since start, handle, Ok(ping, local_behind, remote_behind, sendq) | Err(code))
    pub stats_samples: Vec<(u64, usize, Result<(u128, i32, i32, usize), u8>)>,
    /// (time, skip_frames, frames_ahead() right after the call, current_frame)
    pub wait_recs: Vec<(u64, u32, i32, i32)>,
    pub running_since_ms: Option<u64>,
    pub kill_ms: Option<u64>,
    pub max_events_len: usize,
    pub misuse_results: Vec<(u32, u8, u8, bool)>,
    pub outgoing_end: usize,
    pub sync_frames: (i32, i32, i32),
}

#[derive(Clone, Debug, Default)]
pub struct SpecOut {
    pub addr: Addr,
    pub host: usize,
    pub running: bool,
    pub current_frame: i32,
    pub timeline: Vec<Vec<(u32, u8)>>,
    pub events: Vec<(u64, Ev)>,
    pub too_far: u64,
    pub waits: u64,
    pub calls: u64,
    pub max_behind_seen: usize,
    pub catchup_calls: u64,
    pub max_step: usize,
    pub panicked: bool,
    pub poll_times: Vec<u64>,
    pub bufmax: [BufMax; 2],
    pub trace_hash: u64,
    pub max_events_len: usize,
    pub progress_marks: Vec<(u32, i32)>,
}

#[derive(Clone, Debug, Default)]
pub struct NetOut {
    pub sent: [u64; NCLASS],
    pub dropped: [u64; NCLASS],
    pub delivered: [u64; NCLASS],
    pub duplicated: u64,
    pub delayed: u64,
    pub forged: u64,
    pub ledgers: BTreeMap<(Addr, Addr), LinkLedger>,
    pub trace: Vec<String>,
}

#[derive(Clone, Debug, Default)]
pub struct Outcome {
    pub viols: Vec<Viol>,
    pub peers: Vec<PeerOut>,
    pub specs: Vec<SpecOut>,
    pub net: NetOut,
    /// truth[h][f]: the input player h really submitted for frame f (reference model)
    pub truth: Vec<Vec<u32>>,
    pub owners: Vec<usize>,
    pub t0_ms: u64,
    pub end_ms: u64,
    pub ticks_run: u32,
    /// per-peer current_frame at marks (tick, frames) used by liveness oracles
    pub progress_marks: Vec<(u32, Vec<i32>)>,
    pub stranded: Vec<String>,
    /// forged foreign input packets (kinds 5, 6) injected towards a peer whose session was not Running yet
    pub forged_before_running: u64,
}

impl Outcome {
    pub fn viols_of<'a>(&'a self, props: &'a [&str]) -> impl Iterator<Item = &'a Viol> + 'a {
        self.viols.iter().filter(move |v| props.contains(&v.prop) || v.prop == "PANIC")
    }
    pub fn total_rollbacks(&self) -> u64 {
        self.peers.iter().map(|p| p.stats.loads).sum()
    }
}

thread_local! {
    pub static LAST_PANIC: std::cell::RefCell<Option<String>> = const { std::cell::RefCell::new(None) };
    pub static QUIET_PANICS: std::cell::Cell<bool> = const { std::cell::Cell::new(false) };
}

pub fn install_panic_hook() {
    let default = std::panic::take_hook();
    std::panic::set_hook(Box::new(move |info| {
        let loc = info
            .location()
            .map(|l| {
                let f = l.file();
                let f = f.rsplit("/src/").next().unwrap_or(f);
                format!("{}:{}", f, l.line())
            })
            .unwrap_or_default();
        let msg = if let Some(s) = info.payload().downcast_ref::<&str>() {
            s.to_string()
        } else if let Some(s) = info.payload().downcast_ref::<String>() {
            s.clone()
        } else {
            "<non-string panic>".to_string()
        };
        LAST_PANIC.with(|p| *p.borrow_mut() = Some(format!("{} @ {}", msg, loc)));
        if !QUIET_PANICS.with(|q| q.get()) {
            default(info);
        }
    }));
}

pub fn take_panic() -> String {
    LAST_PANIC.with(|p| p.borrow_mut().take()).unwrap_or_else(|| "<unknown panic>".into())
}

/// normalise a panic message for signatures: digits -> #, drop line numbers
pub fn normalise(msg: &str) -> String {
    let mut out = String::new();
    let mut last_hash = false;
    for c in msg.chars() {
        if c.is_ascii_digit() {
            if !last_hash {
                out.push('#');
            }
            last_hash = true;
        } else {
            out.push(c);
            last_hash = false;
        }
    }
    out.chars().take(160).collect()
}

struct TruthModel {
    next: Vec<i32>,
    last: Vec<u32>,
    delay: Vec<usize>,
    reg: Vec<i32>,
    truth: Vec<Vec<u32>>,
}
impl TruthModel {
    /// documented semantics of a delayed input stream: an increase repeats the last input for
    /// the frames it opens up, a decrease drops submissions until the queue has caught up.
    /// an increase "repeats the last input for the frames it opens up" at the moment of the call
    /// (that is when remote peers are told about those frames); nothing happens before the first
    /// submission or on a decrease
    fn set_delay(&mut self, h: usize, d: usize) {
        if d > self.delay[h] && !self.truth[h].is_empty() {
            for _ in 0..(d - self.delay[h]) {
                let l = self.last[h];
                self.truth[h].push(l);
                self.next[h] += 1;
            }
        }
        self.delay[h] = d;
    }
    fn submit(&mut self, h: usize, user_frame: i32, v: u32) {
        if self.reg[h] == user_frame {
            return;
        }
        self.reg[h] = user_frame;
        let target = user_frame + self.delay[h] as i32;
        if target >= self.next[h] {
            while self.next[h] < target {
                let l = self.last[h];
                self.truth[h].push(l);
                self.next[h] += 1;
            }
            self.truth[h].push(v);
            self.last[h] = v;
            self.next[h] += 1;
        }
    }
}

struct PeerRt<I: HInp, P: InputPredictor<I> + 'static> {
    sess: Option<P2PSession<Cfg<I, P>>>,
    game: Game,
    out: PeerOut,
    idx: usize,
    paused_until: u32,
    finals: Vec<Vec<(u32, u8)>>,
    pred_open: BTreeMap<(i32, usize), u32>,
    last_pred: Vec<(i32, u32)>,
    use_wait: bool,
    drain: bool,
    half: usize,
    neighbours: Vec<Addr>,
    synced_all: bool,
    /// harness-side knowledge: inputs were submitted and the frame they are for has not been consumed yet
    inputs_pending: bool,
    /// frame whose local inputs were already registered by a stalled call, and how many stalled calls so far
    resub_frame: i32,
    resub_n: u32,
}

struct SpecRt<I: HInp, P: InputPredictor<I> + 'static> {
    sess: Option<SpectatorSession<Cfg<I, P>>>,
    game: Game,
    out: SpecOut,
    paused_until: u32,
    spec: SpecSpec,
}

/// A user-supplied predictor that maps the default input to something else (`x -> x | 1`): the library must not
/// call it for a player from whom nothing has been received yet ("GGRS will use I::default() instead of calling the
/// predictor"), which the two bundled predictors cannot tell
pub struct PredictOr1;
impl<I: HInp> InputPredictor<I> for PredictOr1 {
    fn predict(previous: I) -> I {
        I::from_v(previous.to_v() | 1)
    }
}

pub fn run(sc: &Scenario, opts: &RunOpts) -> Outcome {
    match (sc.wide, sc.predictor) {
        (false, 0) => run_typed::<I1, PredictRepeatLast>(sc, opts),
        (false, 2) => run_typed::<I1, PredictOr1>(sc, opts),
        (false, _) => run_typed::<I1, PredictDefault>(sc, opts),
        (true, 0) => run_typed::<I4, PredictRepeatLast>(sc, opts),
        (true, 2) => run_typed::<I4, PredictOr1>(sc, opts),
        (true, _) => run_typed::<I4, PredictDefault>(sc, opts),
    }
}

fn frame_ms(sc: &Scenario) -> u64 {
    (1000 / sc.fps.max(1) as u64).max(1)
}

fn round_dt(sc: &Scenario, tick: u32, settle: bool) -> u64 {
    if sc.sched == 0 || settle {
        return frame_ms(sc);
    }
    let r = mix(sc.seed ^ 0x5c4e_d000, tick as u64);
    match r % 20 {
        0 => 0,
        1 => 40 + (r >> 8) % 100,
        _ => 10 + (r >> 8) % 12,
    }
}

fn build_p2p<I: HInp, P: InputPredictor<I> + 'static>(
    sc: &Scenario,
    p: usize,
    net: &Net,
) -> Result<P2PSession<Cfg<I, P>>, GgrsError> {
    let owners = sc.owners();
    let nplayers = owners.len();
    let mut b = SessionBuilder::<Cfg<I, P>>::new()
        .with_num_players(nplayers)?
        .with_max_prediction_window(sc.max_pred as usize)
        .with_input_delay(sc.peers[p].delay as usize)
        .with_sparse_saving_mode(sc.sparse)
        .with_fps(sc.fps as usize)?
        ;
    // the two setters are independent: half of the scenarios call them in the other order
    b = if sc.seed & 0x1000 == 0 {
        b.with_disconnect_timeout(Duration::from_millis(sc.timeout_ms as u64)).with_disconnect_notify_delay(Duration::from_millis(sc.notify_ms as u64))
    } else {
        b.with_disconnect_notify_delay(Duration::from_millis(sc.notify_ms as u64)).with_disconnect_timeout(Duration::from_millis(sc.timeout_ms as u64))
    };
    if sc.desync > 0 {
        b = b.with_desync_detection_mode(DesyncDetection::On { interval: sc.desync as u32 });
    }
    for (h, &o) in owners.iter().enumerate() {
        if o == p {
            b = b.add_player(PlayerType::Local, h)?;
        } else {
            b = b.add_player(PlayerType::Remote(peer_addr(o)), h)?;
        }
    }
    let mut sh = nplayers;
    for (i, s) in sc.specs.iter().enumerate() {
        if s.host as usize == p {
            b = b.add_player(PlayerType::Spectator(spec_addr(i)), sh)?;
            sh += 1;
        }
    }
    b.start_p2p_session(SimSocket { me: peer_addr(p), net: net.clone() })
}

fn build_spec<I: HInp, P: InputPredictor<I> + 'static>(
    sc: &Scenario,
    i: usize,
    net: &Net,
) -> Result<SpectatorSession<Cfg<I, P>>, GgrsError> {
    let s = &sc.specs[i];
    let b = SessionBuilder::<Cfg<I, P>>::new()
        .with_num_players(sc.num_players())?
        .with_max_prediction_window(s.window as usize)
        .with_fps(sc.fps as usize)?;
    let b = if sc.seed & 0x2000 == 0 {
        b.with_disconnect_timeout(Duration::from_millis(sc.timeout_ms as u64)).with_disconnect_notify_delay(Duration::from_millis(sc.notify_ms as u64))
    } else {
        b.with_disconnect_notify_delay(Duration::from_millis(sc.notify_ms as u64)).with_disconnect_timeout(Duration::from_millis(sc.timeout_ms as u64))
    };
    let b = b.with_max_frames_behind(s.max_behind as usize)?.with_catchup_speed(s.catchup as usize)?;
    Ok(b.start_spectator_session(peer_addr(s.host as usize), SimSocket { me: spec_addr(i), net: net.clone() }))
}

/// minimal valid RLE wrapping (one literal run), independent of the code under test
pub fn rle_literal(raw: &[u8]) -> Vec<u8> {
    let mut out = Vec::new();
    let mut v = (raw.len() as u64) << 1;
    while v > 127 {
        out.push((v as u8) | 128);
        v >>= 7;
    }
    out.push(v as u8);
    out.extend_from_slice(raw);
    if raw.is_empty() {
        return Vec::new();
    }
    out
}

/// payload holding `n` frames of `len` bytes each (content `fill`), in the codec's format
pub fn payload_frames(n: usize, len: usize, fill: u8) -> Vec<u8> {
    let mut raw = Vec::new();
    for _ in 0..n {
        raw.extend_from_slice(&(len as u16).to_le_bytes());
        raw.extend(std::iter::repeat(fill).take(len));
    }
    rle_literal(&raw)
}

fn forge(net: &Net, to: Addr, from: Addr, kind: u8, a: i32, b: i32, bytes: &[u8], nplayers: usize) -> bool {
    // templates: the last real messages sent by `tmpl_from` to `to`
    let tmpl_from = if kind == 4 { (b.max(1)) as Addr } else { from };
    let (tin, tany) = {
        let n = net.borrow();
        match n.ledger(tmpl_from, to) {
            Some(l) => (l.last_input.clone(), l.last_any.clone()),
            None => (None, None),
        }
    };
    // kinds 0-3, 8, 9 keep the sender's real magic and address
    let authentic_looking = matches!(kind, 0..=3 | 8 | 9 | 12 | 13 | 14);
    let push = |m: MMessage| {
        net.borrow_mut().inject(from, to, from_mirror(&m), authentic_looking);
        true
    };
    match kind {
        // wrong number of connection statuses
        0 => {
            let Some(mut m) = tin else { return false };
            if let MBody::Input { peer_connect_status, ack_frame, .. } = &mut m.body {
                let want = a.max(0) as usize;
                if want == nplayers {
                    return false;
                }
                peer_connect_status.resize(want, MConn { disconnected: false, last_frame: -1 });
                // ... and possibly an acknowledgement ahead of the truth, which must not be acted upon either
                *ack_frame += b.clamp(0, 60);
            }
            push(m)
        }
        // negative start frame
        1 => {
            let Some(mut m) = tin else { return false };
            if let MBody::Input { start_frame, .. } = &mut m.body {
                *start_frame = -(a.abs().max(1));
            }
            push(m)
        }
        // arbitrary payload bytes in an otherwise well-formed, current input packet
        2 => {
            let Some(mut m) = tin else { return false };
            if let MBody::Input { bytes: bb, start_frame, .. } = &mut m.body {
                *bb = bytes.to_vec();
                *start_frame += a;
                if *start_frame < 0 {
                    *start_frame = 0;
                }
            }
            push(m)
        }
        // valid encoding of frames of the wrong size
        3 => {
            let Some(mut m) = tin else { return false };
            if let MBody::Input { bytes: bb, .. } = &mut m.body {
                *bb = payload_frames(b.clamp(1, 8) as usize, a.clamp(0, 40) as usize, 0x5a);
            }
            push(m)
        }
        // real packet re-sent from an unknown address
        4 => {
            let Some(m) = tin.or(tany) else { return false };
            push(m)
        }
        // foreign magic on a copy of a current input packet (optionally with shifted frames)
        5 => {
            let Some(mut m) = tin else { return false };
            m.header.magic = m.header.magic.wrapping_add(a.max(1) as u16);
            if m.header.magic == 0 {
                m.header.magic = 1;
            }
            if let MBody::Input { start_frame, ack_frame, .. } = &mut m.body {
                *start_frame += b;
                *ack_frame += b;
                if *start_frame < 0 {
                    *start_frame = 0;
                }
            }
            push(m)
        }
        // foreign-magic, otherwise valid "first packet of a stale session"
        6 => {
            let Some(t) = tany else { return false };
            let mut magic = t.header.magic.wrapping_add(a.max(1) as u16);
            if magic == 0 {
                magic = 1;
            }
            let m = MMessage {
                header: MHeader { magic },
                body: MBody::Input {
                    peer_connect_status: vec![MConn { disconnected: false, last_frame: -1 }; nplayers],
                    disconnect_requested: false,
                    start_frame: 0,
                    ack_frame: -1,
                    bytes: bytes.to_vec(),
                },
            };
            push(m)
        }
        // last message of any class with a foreign magic
        7 => {
            let Some(mut m) = tany else { return false };
            m.header.magic = m.header.magic.wrapping_add(a.max(1) as u16);
            if m.header.magic == 0 {
                m.header.magic = 1;
            }
            // another session cannot know our nonces: its sync replies carry its own
            if let MBody::SyncReply { random_reply } = &mut m.body {
                *random_reply ^= 0x5a5a_0000 | (a as u32 & 0xffff) | 1;
            }
            if let MBody::SyncRequest { random_request } = &mut m.body {
                *random_request ^= 0x3c3c_0000 | (a as u32 & 0xffff) | 1;
            }
            push(m)
        }
        // stray sync reply: random nonce, the sender's real magic
        8 => {
            let Some(t) = tany else { return false };
            push(MMessage { header: t.header, body: MBody::SyncReply { random_reply: a as u32 ^ 0x5eed_0000 } })
        }
        // duplicate of the last real message if it is a sync reply (old, already consumed nonce)
        9 => {
            let Some(t) = tany else { return false };
            if let MBody::SyncReply { random_reply } = t.body {
                // a replayed genuine reply may overtake the original still in flight; for the
                // handshake ledger it is the same reply arriving early
                net.borrow_mut().link(from, to).ledger.sync_reply_delivered.push((now_ms(), random_reply));
                push(t)
            } else {
                false
            }
        }
        // another session's handshake traffic from the peer's address (e.g. the peer crashed and
        // restarted): foreign magic, its own nonce
        10 | 11 => {
            let Some(t) = tany else { return false };
            let mut magic = t.header.magic.wrapping_add(a.max(1) as u16);
            if magic == 0 {
                magic = 1;
            }
            let nonce = 0x0bad_0000u32 ^ (b as u32).wrapping_mul(2654435761);
            let body = if kind == 10 { MBody::SyncRequest { random_request: nonce } } else { MBody::SyncReply { random_reply: nonce } };
            push(MMessage { header: MHeader { magic }, body })
        }
        // a GENUINE-looking announcement (C17, not a malformed packet): copy of the sender's last real input packet
        // in which player `a` is flagged as disconnected at the last frame the sender reports for it anyway - what the
        // sender would send had it just dropped that player
        14 => {
            let Some(mut m) = tin else { return false };
            if let MBody::Input { peer_connect_status, .. } = &mut m.body {
                let i = a.max(0) as usize;
                if i >= peer_connect_status.len() {
                    return false;
                }
                peer_connect_status[i].disconnected = true;
            }
            push(m)
        }
        // copy of the last real input packet whose payload is not a valid encoding AND whose connection-status
        // table claims that player `a` is disconnected since frame `b`: a malformed packet must not change the
        // receiver's connection state
        12 => {
            let Some(mut m) = tin else { return false };
            if let MBody::Input { bytes: bb, peer_connect_status, .. } = &mut m.body {
                *bb = if bytes.is_empty() { vec![0x80] } else { bytes.to_vec() };
                let n = peer_connect_status.len().max(1);
                let j = (a.unsigned_abs() as usize) % n;
                if let Some(c) = peer_connect_status.get_mut(j) {
                    c.disconnected = true;
                    c.last_frame = b.max(0);
                }
            }
            push(m)
        }
        // copy of the last real input packet with a malformed payload and an acknowledgement `b` frames ahead of
        // the truth: must not be acted upon
        13 => {
            let Some(mut m) = tin else { return false };
            if let MBody::Input { bytes: bb, ack_frame, .. } = &mut m.body {
                *bb = if bytes.is_empty() { vec![0x80] } else { bytes.to_vec() };
                *ack_frame += b.clamp(1, 60);
            }
            push(m)
        }
        _ => false,
    }
}

fn err_code(e: &GgrsError) -> u8 {
    match e {
        GgrsError::PredictionThreshold => 1,
        GgrsError::InvalidRequest { .. } => 2,
        GgrsError::MismatchedChecksum { .. } => 3,
        GgrsError::NotSynchronized => 4,
        GgrsError::SpectatorTooFarBehind => 5,
        GgrsError::NotEnoughData => 6,
    }
}

pub fn run_typed<I: HInp, P: InputPredictor<I> + 'static>(sc: &Scenario, opts: &RunOpts) -> Outcome {
    verif_hooks::clock::set_micros(1_000_000);
    verif_hooks::clock::set_auto_tick_micros(0);
    verif_hooks::rand::seed(sc.seed ^ opts.rand_xor);
    let t0 = now_ms();
    let mut out = Outcome::default();
    out.t0_ms = t0;
    let owners = sc.owners();
    let nplayers = owners.len();
    out.owners = owners.clone();
    let np = sc.peers.len();
    let net = new_net(sc.seed ^ 0x6e65_7400, sc.link);
    {
        let mut n = net.borrow_mut();
        n.log = opts.log_net;
        n.keep_payloads = opts.keep_payloads;
        for (a, b, prof) in &sc.links {
            n.link(*a, *b).profile = Some(*prof);
        }
        for f in &sc.faults {
            n.add_fault(*f);
        }
    }
    let vals = sc.vals.max(1) as u32;
    let mp = sc.max_pred as i32;

    // build sessions
    let mut peers: Vec<PeerRt<I, P>> = Vec::new();
    for p in 0..np {
        if opts.same_random_stream {
            verif_hooks::rand::seed(sc.seed ^ opts.rand_xor);
        }
        let built = catch_unwind(AssertUnwindSafe(|| build_p2p::<I, P>(sc, p, &net)));
        let sess = match built {
            Ok(Ok(s)) => Some(s),
            Ok(Err(e)) => {
                out.viols.push(Viol { prop: "SETUP", clause: "build".into(), msg: format!("{e:?}"), node: format!("peer{p}"), tick: 0 });
                None
            }
            Err(_) => {
                out.viols.push(Viol { prop: "PANIC", clause: format!("panic|{}", normalise(&take_panic())), msg: "panic while building session".into(), node: format!("peer{p}"), tick: 0 });
                None
            }
        };
        let mut game = Game::new(nplayers, sc.max_pred as usize, true);
        game.own_snapshots = sc.own_snapshots;
        game.no_checksum = sc.peers[p].no_checksum;
        game.weak_checksum = sc.weak_checksum;
        for op in &sc.ops {
            if let Op::Corrupt { peer, frame } = op {
                if *peer as usize == p {
                    game.corrupt_from = Some(*frame);
                }
            }
        }
        let handles: Vec<usize> = (0..nplayers).filter(|h| owners[*h] == p).collect();
        let mut po = PeerOut::default();
        po.addr = peer_addr(p);
        po.handles = handles;
        po.alive = sess.is_some();
        po.last_conf = -1;
        po.max_gap = i32::MIN;
        peers.push(PeerRt {
            sess,
            game,
            out: po,
            idx: p,
            paused_until: 0,
            finals: Vec::new(),
            pred_open: BTreeMap::new(),
            last_pred: vec![(-2, 0); nplayers],
            use_wait: sc.peers[p].use_wait,
            drain: sc.drain,
            half: 0,
            neighbours: crate::gen::neighbours(sc, peer_addr(p)),
            synced_all: false,
            inputs_pending: false,
            resub_frame: -1,
            resub_n: 0,
        });
    }
    let mut specs: Vec<SpecRt<I, P>> = Vec::new();
    for (i, s) in sc.specs.iter().enumerate() {
        if opts.same_random_stream {
            verif_hooks::rand::seed(sc.seed ^ opts.rand_xor);
        }
        let sess = match catch_unwind(AssertUnwindSafe(|| build_spec::<I, P>(sc, i, &net))) {
            Ok(Ok(s)) => Some(s),
            Ok(Err(e)) => {
                out.viols.push(Viol { prop: "SETUP", clause: "build".into(), msg: format!("{e:?}"), node: format!("spec{i}"), tick: 0 });
                None
            }
            Err(_) => {
                out.viols.push(Viol { prop: "PANIC", clause: format!("panic|{}", normalise(&take_panic())), msg: "panic while building spectator".into(), node: format!("spec{i}"), tick: 0 });
                None
            }
        };
        let mut so = SpecOut::default();
        so.addr = spec_addr(i);
        so.host = s.host as usize;
        so.current_frame = -1;
        specs.push(SpecRt { sess, game: Game::new(nplayers, 0, false), out: so, paused_until: 0, spec: s.clone() });
    }

    if opts.same_random_stream {
        // the numbers drawn while the sessions were built (magic numbers, first nonces) coincide across sessions;
        // from here on the stream is fresh, so that no session is handed a number it has used before (a generator
        // repeating itself within one session is not what this replica is about)
        verif_hooks::rand::seed(sc.seed ^ opts.rand_xor ^ 0x5eed_f00d_0bad_cafe);
    }
    let mut tm = TruthModel {
        next: vec![0; nplayers],
        last: vec![0; nplayers],
        delay: (0..nplayers).map(|h| sc.peers[owners[h]].delay as usize).collect(),
        reg: vec![-1; nplayers],
        truth: vec![Vec::new(); nplayers],
    };

    let total = sc.ticks + sc.settle;
    let fms = frame_ms(sc);
    let mut viols: Vec<Viol> = Vec::new();
    let mut aborted = false;

    let mut round_t0_us = verif_hooks::clock::now_micros();
    'rounds: for tick in 0..total {
        let settle = tick >= sc.ticks;
        if tick == sc.ticks {
            net.borrow_mut().heal();
        }
        // ops
        for op in &sc.ops {
            if op.tick() != tick || matches!(op, Op::Corrupt { .. }) {
                continue;
            }
            match op {
                Op::SetDelay { handle, delay, .. } => {
                    let h = *handle as usize;
                    if h < nplayers {
                        let o = owners[h];
                        let pe = &mut peers[o];
                        if pe.out.alive {
                            if let Some(s) = pe.sess.as_mut() {
                                let r = catch_unwind(AssertUnwindSafe(|| s.set_input_delay(h, *delay as usize)));
                                match r {
                                    Ok(Ok(())) => tm.set_delay(h, *delay as usize),
                                    Ok(Err(e)) => viols.push(Viol { prop: "C11", clause: "set_delay_err".into(), msg: format!("set_input_delay({h},{delay}) -> {e:?}"), node: format!("peer{o}"), tick }),
                                    Err(_) => {
                                        viols.push(Viol { prop: "PANIC", clause: format!("panic|{}", normalise(&take_panic())), msg: format!("set_input_delay({h},{delay}) panicked"), node: format!("peer{o}"), tick });
                                        pe.out.alive = false;
                                        pe.out.panicked = true;
                                        aborted = true;
                                    }
                                }
                            }
                        }
                    }
                }
                Op::Kill { peer, .. } => {
                    let p = *peer as usize;
                    if p < np && peers[p].out.alive {
                        peers[p].out.alive = false;
                        peers[p].out.kill_ms = Some(now_ms());
                        let mut n = net.borrow_mut();
                        for o in 0..np {
                            if o != p {
                                n.kill_link(peer_addr(p), peer_addr(o));
                                n.kill_link(peer_addr(o), peer_addr(p));
                            }
                        }
                        for (i, s) in sc.specs.iter().enumerate() {
                            if s.host as usize == p {
                                n.kill_link(peer_addr(p), spec_addr(i));
                                n.kill_link(spec_addr(i), peer_addr(p));
                            }
                        }
                    }
                }
                Op::LinkDown { from, to, .. } => net.borrow_mut().kill_link(*from, *to),
                Op::Outage { from, to, len_ms, .. } => net.borrow_mut().outage(*from, *to, *len_ms as u64),
                Op::DropNext { from, to, class, .. } => net.borrow_mut().drop_next(*from, *to, *class as usize),
                Op::DropClass { from, to, class, len_ms, .. } => net.borrow_mut().drop_class(*from, *to, *class as usize, *len_ms as u64),
                Op::Slow { from, to, len_ms, extra_ms, .. } => net.borrow_mut().slow(*from, *to, *len_ms as u64, *extra_ms as u64),
                Op::Restart { peer, .. } => {
                    let p = *peer as usize;
                    // only while the handshake is still going on: the peer has not advanced a frame and no other
                    // node has reported it Synchronized (a later restart is, by design, a different session that
                    // the others must ignore and eventually time out)
                    let a = peer_addr(p);
                    let known = peers.iter().enumerate().any(|(q, o)| q != p && o.out.events.iter().any(|e| matches!(e.1, Ev::Synchronized { addr } if addr == a)))
                        || specs.iter().any(|o| o.out.events.iter().any(|e| matches!(e.1, Ev::Synchronized { addr } if addr == a)))
                        // ... or could still do so from replies of the old process that are in flight
                        || net.borrow().links.iter().any(|((from, _), l)| *from == a && l.ledger.sent[crate::sim::wire::Class::SyncReply as usize] >= 5);
                    if p < np && peers[p].out.alive && peers[p].out.ok_calls == 0 && !known && sc.drain {
                        match catch_unwind(AssertUnwindSafe(|| build_p2p::<I, P>(sc, p, &net))) {
                            Ok(Ok(s)) => {
                                let pe = &mut peers[p];
                                pe.sess = Some(s);
                                pe.out.events.clear();
                                pe.out.running_since_ms = None;
                                pe.out.restarts += 1;
                                pe.synced_all = false;
                                pe.inputs_pending = false;
                            }
                            _ => {
                                viols.push(Viol { prop: "SETUP", clause: "rebuild".into(), msg: "could not rebuild the session for a restart".into(), node: format!("peer{p}"), tick });
                            }
                        }
                    }
                }
                Op::Pause { node, ticks, .. } => {
                    let n = *node as usize;
                    if n < np {
                        peers[n].paused_until = tick + ticks;
                    } else if n >= 100 && n - 100 < specs.len() {
                        specs[n - 100].paused_until = tick + ticks;
                    }
                }
                Op::Disconnect { peer, handle, .. } => {
                    let p = *peer as usize;
                    if p < np && peers[p].out.alive {
                        if let Some(s) = peers[p].sess.as_mut() {
                            let r = catch_unwind(AssertUnwindSafe(|| s.disconnect_player(*handle as usize)));
                            match r {
                                Ok(res) => {
                                    if res.is_ok() {
                                        // that address needs no handshake any more
                                        let h = *handle as usize;
                                        let a = if h < nplayers { peer_addr(owners[h]) } else { spec_addr(h - nplayers) };
                                        peers[p].neighbours.retain(|x| *x != a);
                                    }
                                    peers[p].out.misuse_results.push((tick, 50, *handle, res.is_ok()))
                                }
                                Err(_) => {
                                    viols.push(Viol { prop: "PANIC", clause: format!("panic|{}", normalise(&take_panic())), msg: "disconnect_player panicked".into(), node: format!("peer{p}"), tick });
                                    peers[p].out.alive = false;
                                    peers[p].out.panicked = true;
                                    aborted = true;
                                }
                            }
                        }
                    }
                }
                Op::Heal { .. } => net.borrow_mut().heal(),
                Op::Profile { profile, .. } => {
                    let mut n = net.borrow_mut();
                    n.default_profile = *profile;
                    n.healed = false;
                }
                Op::Forge { to, from, kind, a, b, bytes, .. } => {
                    let done = forge(&net, *to, *from, *kind, *a, *b, bytes, nplayers);
                    let tp = (*to as usize).wrapping_sub(1);
                    if done && matches!(*kind, 5 | 6) && tp < np && peers[tp].sess.as_ref().map(|s| s.current_state() != SessionState::Running).unwrap_or(false) {
                        out.forged_before_running += 1;
                    }
                }
                Op::Misuse { kind: 98, .. } => {}
                Op::Misuse { peer, kind, arg, .. } => {
                    let p = *peer as usize;
                    if p < np && peers[p].out.alive {
                        misuse(&mut peers[p], *kind, *arg, tick, &mut viols, nplayers);
                    }
                }
                Op::Corrupt { .. } => {}
            }
        }
        if aborted {
            break 'rounds;
        }

        let dt = round_dt(sc, tick, settle);
        if sc.wait_mode != 0 {
            // parallel waits: the previous round began at `round_t0_us`; whatever part of dt the longest wait of
            // that round has not used up yet passes now (with the millisecond polls of fine_poll)
            let base = round_t0_us;
            for m in 1..dt {
                let tgt = base + m * 1000;
                if tgt > verif_hooks::clock::now_micros() {
                    verif_hooks::clock::set_micros(tgt);
                    if sc.fine_poll {
                        for pe in peers.iter_mut() {
                            if pe.out.alive && tick >= pe.paused_until {
                                poll_peer(pe, tick, &mut viols);
                            }
                        }
                    }
                }
            }
            if base + dt * 1000 > verif_hooks::clock::now_micros() {
                verif_hooks::clock::set_micros(base + dt * 1000);
            }
        } else if sc.fine_poll && dt > 1 {
            // poll every millisecond between rounds
            for _ in 0..dt - 1 {
                verif_hooks::clock::advance_millis(1);
                for pe in peers.iter_mut() {
                    if pe.out.alive && tick >= pe.paused_until {
                        poll_peer(pe, tick, &mut viols);
                    }
                }
            }
            verif_hooks::clock::advance_millis(1);
        } else {
            verif_hooks::clock::advance_millis(dt);
        }

        // late ops: Misuse kind 98 = "the game polls (taking in whatever has arrived by now) and drops player `arg`
        // with disconnect_player before its next advance_frame()"
        for op in &sc.ops {
            if let Op::Misuse { tick: t, peer, kind: 98, arg } = op {
                let p = *peer as usize;
                if *t == tick && p < np && peers[p].out.alive {
                    let h = *arg as usize;
                    let r = match peers[p].sess.as_mut() {
                        Some(s) => catch_unwind(AssertUnwindSafe(|| {
                            s.poll_remote_clients();
                            s.disconnect_player(h)
                        })),
                        None => continue,
                    };
                    match r {
                        Ok(res) => {
                            if res.is_ok() {
                                let a = if h < nplayers { peer_addr(owners[h]) } else { spec_addr(h - nplayers) };
                                peers[p].neighbours.retain(|x| *x != a);
                            }
                            peers[p].out.misuse_results.push((tick, 50, *arg, res.is_ok()));
                            let half = peers[p].half;
                            after_call(&mut peers[p], half);
                        }
                        Err(_) => {
                            viols.push(Viol { prop: "PANIC", clause: format!("panic|{}", normalise(&take_panic())), msg: "poll + disconnect_player panicked".into(), node: format!("peer{p}"), tick });
                            peers[p].out.alive = false;
                            peers[p].out.panicked = true;
                        }
                    }
                }
            }
        }

        // order
        let mut order: Vec<usize> = (0..np).chain((0..specs.len()).map(|i| 100 + i)).collect();
        if sc.sched != 0 && !settle {
            let mut r = Rng(mix(sc.seed ^ 0x0de2, tick as u64));
            for i in (1..order.len()).rev() {
                let j = r.below(i as u64 + 1) as usize;
                order.swap(i, j);
            }
        }
        round_t0_us = verif_hooks::clock::now_micros();
        let mut round_end_us = round_t0_us;
        let phase_of = |node: usize| -> u64 { if node < 100 { sc.phase_ms.get(node).copied().unwrap_or(0) as u64 } else { 0 } };
        if sc.wait_mode != 0 {
            order.sort_by_key(|n| phase_of(*n));
        }
        for &node in &order {
            if sc.wait_mode != 0 {
                // every node's call of this round starts at the round's instant (plus the node's phase)
                round_end_us = round_end_us.max(verif_hooks::clock::now_micros());
                verif_hooks::clock::set_micros(round_t0_us + phase_of(node) * 1000);
            }
            if node < 100 {
                let slow = sc.peers[node].slow as u64;
                let pe = &mut peers[node];
                if !pe.out.alive || tick < pe.paused_until {
                    continue;
                }
                let skip = sc.sched != 0 && !settle && Rng(mix(mix(sc.seed ^ 0x510, node as u64), tick as u64)).chance(slow);
                if skip || sc.poll_only {
                    poll_peer(pe, tick, &mut viols);
                } else {
                    tick_peer(sc, pe, &mut tm, tick, t0, total, &net, &mut viols, opts, vals, mp, &owners);
                }
                if pe.out.panicked {
                    aborted = true;
                }
            } else {
                let i = node - 100;
                let slow = sc.specs[i].slow as u64;
                let host = sc.specs[i].host as usize;
                let host_conf = peers.get(host).and_then(|h| h.sess.as_ref().map(|s| (s.current_state() == SessionState::Running).then(|| s.confirmed_frame())).flatten());
                let sp = &mut specs[i];
                if sp.sess.is_none() || sp.out.panicked || tick < sp.paused_until {
                    continue;
                }
                let skip = sc.sched != 0 && !settle && Rng(mix(mix(sc.seed ^ 0x511, node as u64), tick as u64)).chance(slow);
                tick_spec(sp, i, skip || sc.poll_only, tick, total, host_conf, &mut viols, I::to_v);
                if sp.out.panicked {
                    aborted = true;
                }
            }
        }
        if sc.wait_mode != 0 {
            round_end_us = round_end_us.max(verif_hooks::clock::now_micros());
            verif_hooks::clock::set_micros(round_end_us);
        }
        if tick % 60 == 0 || tick + 1 == total || tick == sc.ticks {
            out.progress_marks.push((tick, peers.iter().map(|p| p.sess.as_ref().map(|s| s.current_frame()).unwrap_or(-1)).collect()));
            for sp in specs.iter_mut() {
                let f = sp.sess.as_ref().map(|s| s.current_frame()).unwrap_or(-1);
                sp.out.progress_marks.push((tick, f));
            }
        }
        out.ticks_run = tick + 1;
        if aborted || viols.len() > 30 {
            break 'rounds;
        }
    }

    // finish
    out.end_ms = now_ms();
    for pe in peers.iter_mut() {
        for (clause, msg) in pe.game.errors.drain(..) {
            let prop: &'static str = if clause.starts_with("C04") { "C04" } else { "C02" };
            viols.push(Viol { prop, clause: clause.to_string(), msg, node: format!("peer{}", pe.idx), tick: out.ticks_run });
        }
        if let Some(s) = pe.sess.as_ref() {
            pe.out.running = s.current_state() == SessionState::Running;
            pe.out.current_frame = s.current_frame();
            pe.out.cs = s.verif_connect_status();
            pe.out.outgoing_end = s.verif_buffers().outgoing_local_inputs;
            pe.out.sync_frames = s.verif_sync_frames();
        }
        pe.out.timeline = std::mem::take(&mut pe.game.timeline);
        pe.out.after = std::mem::take(&mut pe.game.after);
        pe.out.sim_count = std::mem::take(&mut pe.game.sim_count);
        pe.out.saved_checksums = std::mem::take(&mut pe.game.saved_checksums);
        pe.out.stats = pe.game.stats.clone();
    }
    for (i, sp) in specs.iter_mut().enumerate() {
        for (clause, msg) in sp.game.errors.drain(..) {
            viols.push(Viol { prop: "C06", clause: format!("spec.{clause}"), msg: msg.clone(), node: format!("spec{i}"), tick: out.ticks_run });
            viols.push(Viol { prop: "C02", clause: format!("spec.{clause}"), msg, node: format!("spec{i}"), tick: out.ticks_run });
        }
        if let Some(s) = sp.sess.as_ref() {
            sp.out.running = s.current_state() == SessionState::Running;
            sp.out.current_frame = s.current_frame();
        }
        sp.out.timeline = std::mem::take(&mut sp.game.timeline);
    }
    {
        let n = net.borrow();
        for ((a, b), l) in &n.links {
            for c in 0..NCLASS {
                out.net.sent[c] += l.ledger.sent[c];
                out.net.dropped[c] += l.ledger.dropped[c];
                out.net.delivered[c] += l.ledger.delivered[c];
            }
            out.net.duplicated += l.ledger.duplicated;
            out.net.delayed += l.ledger.delayed;
            out.net.ledgers.insert((*a, *b), l.ledger.clone());
        }
        for pe in peers.iter_mut() {
            pe.out.poll_times = n.recv_log.get(&pe.out.addr).cloned().unwrap_or_default();
        }
        for sp in specs.iter_mut() {
            sp.out.poll_times = n.recv_log.get(&sp.out.addr).cloned().unwrap_or_default();
        }
        out.net.forged = n.forged;
        out.net.trace = n.trace.clone();
    }
    out.truth = tm.truth;
    out.viols = viols;
    out.peers = peers.into_iter().map(|p| p.out).collect();
    out.specs = specs.into_iter().map(|s| s.out).collect();
    out
}

fn poll_peer<I: HInp, P: InputPredictor<I> + 'static>(pe: &mut PeerRt<I, P>, tick: u32, viols: &mut Vec<Viol>) {
    let Some(s) = pe.sess.as_mut() else { return };
    let r = catch_unwind(AssertUnwindSafe(|| s.poll_remote_clients()));
    if r.is_err() {
        viols.push(Viol { prop: "PANIC", clause: format!("panic|{}", normalise(&take_panic())), msg: "poll_remote_clients panicked".into(), node: format!("peer{}", pe.idx), tick });
        pe.out.alive = false;
        pe.out.panicked = true;
        return;
    }
    after_call(pe, pe.half);
}

/// bookkeeping after every API call that may produce events / change buffers
fn after_call<I: HInp, P: InputPredictor<I> + 'static>(pe: &mut PeerRt<I, P>, half: usize) {
    let drain = pe.drain;
    let Some(s) = pe.sess.as_mut() else { return };
    let b = s.verif_buffers();
    pe.out.max_events_len = pe.out.max_events_len.max(b.event_queue);
    pe.out.bufmax[half.min(1)].absorb(&b);
    if drain {
        let now = now_ms();
        for e in s.events() {
            pe.out.events.push((now, conv_ev(e)));
        }
    }
    if pe.out.running_since_ms.is_none() && s.current_state() == SessionState::Running {
        pe.out.running_since_ms = Some(now_ms());
    }
}

#[allow(clippy::too_many_arguments)]
fn tick_peer<I: HInp, P: InputPredictor<I> + 'static>(
    sc: &Scenario,
    pe: &mut PeerRt<I, P>,
    tm: &mut TruthModel,
    tick: u32,
    t0: u64,
    total: u32,
    net: &Net,
    viols: &mut Vec<Viol>,
    opts: &RunOpts,
    vals: u32,
    mp: i32,
    owners_all: &[usize],
) {
    let p = pe.idx;
    let node = format!("peer{p}");
    let nplayers = tm.truth.len();
    let half = if tick * 2 >= total { 1 } else { 0 };
    pe.half = half;
    let owners: &[usize] = owners_all;
    let Some(s) = pe.sess.as_mut() else { return };
    let before = s.current_frame();
    let mut submitted: Vec<(usize, u32)> = Vec::new();
    let attempt = if sc.resubmit_varies && pe.resub_frame == before { pe.resub_n } else { 0 };
    for &h in &pe.out.handles {
        // the first registered submission of a frame is its true input; later submissions for a frame that is
        // still stalled carry other values and must be ignored by the session
        let v = if attempt == 0 { true_input(sc.seed, h, before, vals) } else { true_input(sc.seed ^ (attempt as u64).wrapping_mul(0x9e37_79b9_7f4a_7c15), h, before, vals) };
        if sc.double_submit {
            // a decoy first: "older given inputs will be overwritten"
            let _ = s.add_local_input(h, I::from_v((v + 1 + (tick % 3)) % vals.max(2)));
        }
        match s.add_local_input(h, I::from_v(v)) {
            Ok(()) => {
                submitted.push((h, v));
                pe.inputs_pending = true;
            }
            Err(e) => viols.push(Viol { prop: "C16", clause: "add_local_input_valid".into(), msg: format!("add_local_input({h}) for a local player failed: {e:?}"), node: node.clone(), tick }),
        }
    }
    pe.out.calls += 1;
    let use_wait = pe.use_wait;
    let calls0 = if use_wait { net.borrow().recv_calls(peer_addr(p)) } else { 0 };
    let res = catch_unwind(AssertUnwindSafe(|| {
        if use_wait {
            // all three entry points of the lockstep wait helper, in rotation
            verif_hooks::clock::set_auto_tick_micros(100);
            let r = match if sc.wait_mode == 1 { 0 } else if sc.wait_mode == 3 { 1 } else { tick % 3 } {
                0 => s.advance_frame_with_wait(),
                1 => s.advance_frame_with_wait_timeout(Duration::from_millis(3)),
                _ => s.advance_frame_with_wait_timeout(Duration::from_micros(0)),
            };
            verif_hooks::clock::set_auto_tick_micros(0);
            r
        } else {
            s.advance_frame()
        }
    }));
    verif_hooks::clock::set_auto_tick_micros(0);
    if use_wait {
        let n = net.borrow();
        let calls1 = n.recv_calls(peer_addr(p));
        if calls1 > calls0 + 1 && n.delivered_in_calls(peer_addr(p), calls0 + 1, calls1) {
            pe.out.midwait_deliveries += 1;
        }
    }
    let res = match res {
        Ok(r) => r,
        Err(_) => {
            viols.push(Viol { prop: "PANIC", clause: format!("panic|{}", normalise(&take_panic())), msg: format!("advance_frame panicked at frame {before}"), node, tick });
            pe.out.alive = false;
            pe.out.panicked = true;
            return;
        }
    };
    match res {
        Ok(reqs) => {
            pe.out.ok_calls += 1;
            for (h, v) in &submitted {
                tm.submit(*h, before, *v);
            }
            let advs = pe.game.handle(reqs, I::to_v);
            let cs = s.verif_connect_status();
            let cur = s.current_frame();
            // ---- trace (C17)
            {
                let mut t = pe.out.trace_hash;
                t = mix(t, tick as u64);
                for (k, f) in &pe.game.call_kinds {
                    t = mix(t, (*k as u64) << 32 | (*f as u32 as u64));
                }
                for a in &advs {
                    for (v, st) in &a.inputs {
                        t = mix(t, (*v as u64) << 2 | *st as u64);
                    }
                }
                pe.out.trace_hash = t;
                if opts.record_trace {
                    pe.out.trace.push(format!("t{} {:?} {:?}", tick, pe.game.call_kinds, advs.iter().map(|a| (a.frame, a.inputs.clone())).collect::<Vec<_>>()));
                }
            }
            // ---- C02: frame consistency
            if pe.game.st.frame != cur {
                viols.push(Viol { prop: "C02", clause: "C02.frame_eq".into(), msg: format!("after the request list the game is at frame {} but current_frame() is {}", pe.game.st.frame, cur), node: node.clone(), tick });
                pe.game.st.frame = cur;
            }
            let d = cur - before;
            if d == 1 {
                pe.inputs_pending = false;
            }
            if d == 0 {
                if pe.resub_frame == before {
                    pe.resub_n += 1;
                } else {
                    pe.resub_frame = before;
                    pe.resub_n = 1;
                }
            }
            if d != 0 && d != 1 {
                viols.push(Viol { prop: "C02", clause: "C02.delta".into(), msg: format!("current_frame() moved by {d} in one call"), node: node.clone(), tick });
            }
            if d == 0 {
                pe.out.stalls += 1;
                pe.out.last_stall_tick = tick;
                if mp == 0 {
                    pe.out.lockstep_stalls += 1;
                    if !advs.is_empty() {
                        viols.push(Viol { prop: "C04", clause: "C04.lockstep_stall".into(), msg: "lockstep call simulated a frame without advancing current_frame()".into(), node: node.clone(), tick });
                    }
                }
            }
            if mp == 0 && d != 0 && advs.is_empty() {
                // the stalled call of the property: no AdvanceFrame was handed out, so the frame must not move
                viols.push(Viol { prop: "C04", clause: "C04.lockstep_stall_moved".into(), msg: format!("lockstep call returned no AdvanceFrame (a stall) but current_frame() moved {before} -> {cur}"), node: node.clone(), tick });
            }
            // ---- C04: speculation bound for first simulations
            {
                let c_acc = cs.iter().filter(|x| !x.0).map(|x| x.1).min().unwrap_or(i32::MAX);
                // ledger: newest frame delivered from every connected remote player's owner
                let mut c_led = i32::MAX;
                {
                    let n = net.borrow();
                    for h in 0..nplayers {
                        if cs[h].0 {
                            continue;
                        }
                        let o = owners[h];
                        if o == p {
                            continue;
                        }
                        let l = n.ledger(peer_addr(o), peer_addr(p)).map(|l| l.input_delivered_max).unwrap_or(-1);
                        c_led = c_led.min(l);
                    }
                }
                for a in advs.iter().filter(|a| a.first) {
                    if c_acc != i32::MAX {
                        let gap = a.frame - c_acc;
                        pe.out.max_gap = pe.out.max_gap.max(gap);
                        if gap == mp {
                            pe.out.gap_eq += 1;
                        }
                        if gap > mp {
                            viols.push(Viol { prop: "C04", clause: "C04.window".into(), msg: format!("first simulation of frame {} while inputs of all connected players are only held up to frame {} (max_prediction {})", a.frame, c_acc, mp), node: node.clone(), tick });
                        }
                    }
                    if c_led != i32::MAX && a.frame - c_led > mp {
                        viols.push(Viol { prop: "C04", clause: "C04.window_ledger".into(), msg: format!("first simulation of frame {} but the network only ever delivered remote inputs up to frame {} (max_prediction {})", a.frame, c_led, mp), node: node.clone(), tick });
                    }
                    if mp == 0 && a.inputs.iter().any(|(_, st)| *st == ST_PRED) {
                        viols.push(Viol { prop: "C04", clause: "C04.lockstep_predicted".into(), msg: format!("lockstep AdvanceFrame for frame {} carries a Predicted input", a.frame), node: node.clone(), tick });
                    }
                }
            }
            // ---- C03: status truthfulness, finality
            for a in &advs {
                let f = a.frame;
                for h in 0..nplayers.min(a.inputs.len()) {
                    let (v, st) = a.inputs[h];
                    let (disc, last) = cs[h];
                    let tr = |ff: i32| -> Option<u32> { if ff < 0 { None } else { tm.truth[h].get(ff as usize).copied() } };
                    if owners[h] == p {
                        if st != ST_CONF || Some(v) != tr(f) {
                            viols.push(Viol { prop: "C03", clause: "C03.local".into(), msg: format!("local player {h} frame {f}: got value {v} status {st}, true input {:?}", tr(f)), node: node.clone(), tick });
                        }
                    } else {
                        match st {
                            ST_CONF => {
                                if f > last {
                                    viols.push(Viol { prop: "C03", clause: "C03.confirmed_not_received".into(), msg: format!("player {h} frame {f} handed out as Confirmed but newest received frame is {last}"), node: node.clone(), tick });
                                } else if Some(v) != tr(f) {
                                    viols.push(Viol { prop: "C03", clause: "C03.confirmed_value".into(), msg: format!("player {h} frame {f} Confirmed value {v} != true input {:?}", tr(f)), node: node.clone(), tick });
                                }
                                let led = net.borrow().ledger(peer_addr(owners[h]), peer_addr(p)).map(|l| l.input_delivered_max).unwrap_or(-1);
                                if f > led {
                                    viols.push(Viol { prop: "C03", clause: "C03.confirmed_not_delivered".into(), msg: format!("player {h} frame {f} Confirmed but the network never delivered a frame beyond {led}"), node: node.clone(), tick });
                                }
                                if let Some(pv) = pe.pred_open.remove(&(f, h)) {
                                    if pv != v {
                                        pe.out.predicted_corrected += 1;
                                    }
                                }
                            }
                            ST_PRED => {
                                pe.out.predicted_seen += 1;
                                let exp = if last < 0 || f == 0 { 0 } else { tr(last).map(|x| P::predict(I::from_v(x)).to_v()).unwrap_or(u32::MAX) };
                                if f <= last {
                                    viols.push(Viol { prop: "C03", clause: "C03.predicted_but_received".into(), msg: format!("player {h} frame {f} handed out as Predicted although frame {last} was already received"), node: node.clone(), tick });
                                } else if disc {
                                    viols.push(Viol { prop: "C03", clause: "C03.predicted_disconnected".into(), msg: format!("player {h} frame {f} Predicted but the player is disconnected since frame {last}"), node: node.clone(), tick });
                                } else if v != exp && !(sc.predictor == 2 && v == 0 && (0..=last).all(|g| tr(g) == Some(0))) {
                                    // (custom predictor only: predictions are sticky - the default input handed out
                                    // while nothing had been received stays in use for as long as every input received
                                    // since then equals it, and is not re-derived through the predictor)
                                    viols.push(Viol { prop: "C03", clause: "C03.predicted_value".into(), msg: format!("player {h} frame {f} predicted value {v}, expected predictor(newest received input of frame {last}) = {exp}"), node: node.clone(), tick });
                                }
                                pe.pred_open.insert((f, h), v);
                                let (lf, lv) = pe.last_pred[h];
                                if a.first && lf + 1 == f && lv == v {
                                    pe.out.sticky2 += 1;
                                }
                                if a.first {
                                    pe.last_pred[h] = (f, v);
                                }
                            }
                            _ => {
                                if !(disc && last < f) {
                                    viols.push(Viol { prop: "C03", clause: "C03.disconnected_status".into(), msg: format!("player {h} frame {f} handed out as Disconnected but disconnected={disc} last={last}"), node: node.clone(), tick });
                                } else if v != 0 {
                                    viols.push(Viol { prop: "C03", clause: "C03.disconnected_value".into(), msg: format!("player {h} frame {f} Disconnected with non-default value {v}"), node: node.clone(), tick });
                                }
                                pe.pred_open.remove(&(f, h));
                            }
                        }
                    }
                }
                // finality: frame already confirmed as of an earlier call
                if (f as usize) < pe.finals.len() {
                    let fin = &pe.finals[f as usize];
                    for h in 0..nplayers.min(a.inputs.len()) {
                        if fin[h].0 != a.inputs[h].0 {
                            viols.push(Viol { prop: "C03", clause: "C03.finality".into(), msg: format!("frame {f} was at or below confirmed_frame() with player {h} value {} but is re-simulated with {}", fin[h].0, a.inputs[h].0), node: node.clone(), tick });
                        }
                    }
                }
            }
            // ---- C01/C03: confirmed frames carry the true inputs
            if s.current_state() == SessionState::Running {
                let conf = s.confirmed_frame();
                if conf < pe.out.last_conf {
                    viols.push(Viol { prop: "C03", clause: "C03.confirmed_monotone".into(), msg: format!("confirmed_frame() decreased from {} to {}", pe.out.last_conf, conf), node: node.clone(), tick });
                }
                pe.out.last_conf = pe.out.last_conf.max(conf);
                let upto = conf.min(pe.game.timeline.len() as i32 - 1);
                while (pe.finals.len() as i32) <= upto {
                    let f = pe.finals.len();
                    let row = pe.game.timeline[f].clone();
                    for h in 0..nplayers.min(row.len()) {
                        let (v, st) = row[h];
                        let (disc, last) = cs[h];
                        if disc && last < f as i32 {
                            continue; // judged by C07/C10 oracles
                        }
                        let t = tm.truth[h].get(f).copied();
                        if Some(v) != t || st == ST_DISC {
                            viols.push(Viol { prop: "C01", clause: "C01.confirmed_input".into(), msg: format!("frame {f} is confirmed (confirmed_frame {conf}) but its last simulation used value {v} status {st} for player {h}; true input {:?}", t), node: node.clone(), tick });
                        }
                    }
                    pe.finals.push(row);
                }
            }
            // ---- C15 sampling
            if opts.sample_stats {
                let fa = s.frames_ahead();
                if tick % 10 == 0 {
                    pe.out.fa_samples.push((tick as i32, fa));
                }
                if tick % 10 == 0 {
                    if let Some(h) = (0..nplayers).find(|h| owners[*h] != p) {
                        let r = s.network_stats(h).map(|st| (st.ping, st.local_frames_behind, st.remote_frames_behind, st.send_queue_len)).map_err(|e| err_code(&e));
                        pe.out.stats_samples.push((now_ms() - t0, h, r));
                    }
                }
            }
            // wait recommendations raised by this call: look at undrained queue via drain below
            let fa_now = s.frames_ahead();
            let ev_before = pe.out.events.len();
            after_call(pe, half);
            for (t, e) in &pe.out.events[ev_before..] {
                if let Ev::Wait { skip } = e {
                    pe.out.wait_recs.push((*t, *skip, fa_now, cur));
                }
            }
            // C12: advance_frame may only succeed once every remote completed the handshake
            if sc.drain && !pe.synced_all {
                let ok = pe.neighbours.iter().all(|a| pe.out.events.iter().any(|e| matches!(e.1, Ev::Synchronized { addr } if addr == *a)));
                if ok {
                    pe.synced_all = true;
                } else {
                    viols.push(Viol { prop: "C12", clause: "C12.advanced_before_synchronized".into(), msg: format!("advance_frame() succeeded although not every remote address of {:?} has produced Synchronized yet", pe.neighbours), node: node.clone(), tick });
                    pe.synced_all = true;
                }
            }
        }
        Err(GgrsError::NotSynchronized) => {
            pe.out.notsync_calls += 1;
            if s.current_state() == SessionState::Running {
                viols.push(Viol { prop: "C12", clause: "C12.notsync_while_running".into(), msg: "advance_frame returned NotSynchronized although current_state() is Running".into(), node, tick });
            }
            after_call(pe, half);
        }
        Err(e) => {
            let cur = s.current_frame();
            if cur != before {
                viols.push(Viol { prop: "C02", clause: "C02.err_moved".into(), msg: format!("advance_frame returned {e:?} (no requests) but current_frame() moved {before} -> {cur}: the game is left behind"), node: node.clone(), tick });
            }
            viols.push(Viol { prop: "C16", clause: "advance_frame_valid".into(), msg: format!("advance_frame with all inputs present returned {e:?}"), node, tick });
            after_call(pe, half);
        }
    }
}

#[allow(clippy::too_many_arguments)]
fn tick_spec<I: HInp, P: InputPredictor<I> + 'static>(
    sp: &mut SpecRt<I, P>,
    i: usize,
    poll_only: bool,
    tick: u32,
    total: u32,
    host_conf: Option<i32>,
    viols: &mut Vec<Viol>,
    to_v: impl Fn(I) -> u32,
) {
    let node = format!("spec{i}");
    let half = if tick * 2 >= total { 1 } else { 0 };
    let Some(s) = sp.sess.as_mut() else { return };
    // poll first so frames_behind_host() is what advance_frame() will see
    if catch_unwind(AssertUnwindSafe(|| s.poll_remote_clients())).is_err() {
        viols.push(Viol { prop: "PANIC", clause: format!("panic|{}", normalise(&take_panic())), msg: "spectator poll panicked".into(), node, tick });
        sp.out.panicked = true;
        return;
    }
    if !poll_only {
        let running = s.current_state() == SessionState::Running;
        let behind = if running { s.frames_behind_host() } else { 0 };
        sp.out.max_behind_seen = sp.out.max_behind_seen.max(behind);
        let before = s.current_frame();
        sp.out.calls += 1;
        let res = match catch_unwind(AssertUnwindSafe(|| s.advance_frame())) {
            Ok(r) => r,
            Err(_) => {
                viols.push(Viol { prop: "PANIC", clause: format!("panic|{}", normalise(&take_panic())), msg: "spectator advance_frame panicked".into(), node, tick });
                sp.out.panicked = true;
                return;
            }
        };
        let cur = s.current_frame();
        match res {
            Ok(reqs) => {
                let n = reqs.len();
                if reqs.iter().any(|r| !matches!(r, GgrsRequest::AdvanceFrame { .. })) {
                    viols.push(Viol { prop: "C02", clause: "C02.spec_only_advance".into(), msg: "spectator request list contains a non-AdvanceFrame request".into(), node: node.clone(), tick });
                }
                // spectator convention: current_frame() is the last simulated frame (starts at -1)
                sp.game.st.frame = before + 1;
                let advs = sp.game.handle(reqs, &to_v);
                let mut t = sp.out.trace_hash;
                t = mix(t, tick as u64);
                for a in &advs {
                    for (v, st) in &a.inputs {
                        t = mix(t, (*v as u64) << 2 | *st as u64);
                    }
                }
                sp.out.trace_hash = t;
                if (cur - before) as usize != n || sp.game.st.frame != cur + 1 {
                    viols.push(Viol { prop: "C02", clause: "C02.spec_delta".into(), msg: format!("spectator executed {n} AdvanceFrame requests but current_frame() moved {before} -> {cur}"), node: node.clone(), tick });
                }
                sp.out.max_step = sp.out.max_step.max(n);
                let allowed = if behind > sp.spec.max_behind as usize { (sp.spec.catchup as usize).min(behind).max(1) } else { 1 };
                if behind > sp.spec.max_behind as usize && n > 1 {
                    sp.out.catchup_calls += 1;
                }
                if n > allowed {
                    viols.push(Viol { prop: "C06", clause: "C06.catchup".into(), msg: format!("spectator advanced {n} frames in one call with {behind} frames buffered (max_frames_behind {}, catchup_speed {})", sp.spec.max_behind, sp.spec.catchup), node: node.clone(), tick });
                }
            }
            Err(GgrsError::PredictionThreshold) => {
                sp.out.waits += 1;
                if cur != before {
                    viols.push(Viol { prop: "C06", clause: "C06.err_moved".into(), msg: format!("spectator advance_frame returned an error but current_frame() moved {before} -> {cur} (frames skipped)"), node: node.clone(), tick });
                }
            }
            Err(GgrsError::SpectatorTooFarBehind) => {
                sp.out.too_far += 1;
                if cur != before {
                    viols.push(Viol { prop: "C06", clause: "C06.err_moved".into(), msg: format!("spectator advance_frame returned SpectatorTooFarBehind but current_frame() moved {before} -> {cur} (frames skipped)"), node: node.clone(), tick });
                }
            }
            Err(GgrsError::NotSynchronized) => {
                if running {
                    viols.push(Viol { prop: "C12", clause: "C12.notsync_while_running".into(), msg: "spectator advance_frame returned NotSynchronized while Running".into(), node: node.clone(), tick });
                }
            }
            Err(e) => viols.push(Viol { prop: "C06", clause: "C06.unexpected_error".into(), msg: format!("spectator advance_frame returned {e:?}"), node: node.clone(), tick }),
        }
        if let Some(hc) = host_conf {
            if cur > hc {
                viols.push(Viol { prop: "C06", clause: "C06.beyond_confirmed".into(), msg: format!("spectator is at frame {cur} but the host has only confirmed up to {hc}"), node: node.clone(), tick });
            }
        }
    }
    let b = s.verif_buffers();
    sp.out.max_events_len = sp.out.max_events_len.max(b.event_queue);
    sp.out.bufmax[half].absorb(&b);
    let now = now_ms();
    for e in s.events() {
        sp.out.events.push((now, conv_ev(e)));
    }
}

fn misuse<I: HInp, P: InputPredictor<I> + 'static>(pe: &mut PeerRt<I, P>, kind: u8, arg: u8, tick: u32, viols: &mut Vec<Viol>, _nplayers: usize) {
    let node = format!("peer{}", pe.idx);
    let Some(s) = pe.sess.as_mut() else { return };
    let h = arg as usize;
    let is_local = pe.out.handles.contains(&h);
    let r = catch_unwind(AssertUnwindSafe(|| -> (bool, String) {
        match kind {
            0 => {
                if is_local {
                    return (true, "skipped (valid call)".into());
                }
                let r = s.add_local_input(h, I::from_v(1));
                (matches!(r, Err(GgrsError::InvalidRequest { .. })), format!("add_local_input({h}) -> {r:?}"))
            }
            1 => {
                // advance with an input missing / before synchronisation; only a misuse when nothing is pending
                // whether inputs are pending is the harness's own knowledge (submitted, frame not yet consumed),
                // not read from the session
                if pe.inputs_pending || pe.out.handles.is_empty() {
                    s.poll_remote_clients();
                    return (true, "skipped (inputs pending)".into());
                }
                let before = s.current_frame();
                let r = s.advance_frame();
                let ok = match &r {
                    Err(GgrsError::NotSynchronized) => true,
                    Err(GgrsError::InvalidRequest { .. }) => true,
                    _ => false,
                } && s.current_frame() == before;
                (ok, format!("advance_frame() without inputs -> {:?}", r.as_ref().map(|v| v.len())))
            }
            6 => {
                // advance with inputs for only SOME of this peer's local players (needs two of them and nothing pending)
                if pe.inputs_pending || pe.out.handles.len() < 2 {
                    s.poll_remote_clients();
                    return (true, "skipped (inputs pending or a single local player)".into());
                }
                let before = s.current_frame();
                let first = pe.out.handles[(arg as usize) % (pe.out.handles.len() - 1)];
                let _ = s.add_local_input(first, I::from_v(1 + arg as u32 % 3));
                let r = s.advance_frame();
                let ok = match &r {
                    Err(GgrsError::NotSynchronized) => true,
                    Err(GgrsError::InvalidRequest { .. }) => true,
                    _ => false,
                } && s.current_frame() == before;
                (ok, format!("advance_frame() with an input for player {first} only -> {:?}", r.as_ref().map(|v| v.len())))
            }
            3 => {
                let cs = s.verif_connect_status();
                let already = h < cs.len() && cs[h].0;
                let known_remote = h < cs.len() && !is_local;
                if (known_remote && !already) || s.spectator_handles().contains(&h) {
                    return (true, "skipped (would be a valid disconnect)".into());
                }
                let r = s.disconnect_player(h);
                (matches!(r, Err(GgrsError::InvalidRequest { .. })), format!("disconnect_player({h}) -> {r:?}"))
            }
            4 => {
                if is_local {
                    return (true, "skipped".into());
                }
                let r = s.set_input_delay(h, 3);
                (matches!(r, Err(GgrsError::InvalidRequest { .. })), format!("set_input_delay({h}) -> {r:?}"))
            }
            5 => {
                let valid = s.remote_player_handles().contains(&h) || s.spectator_handles().contains(&h);
                if valid {
                    return (true, "skipped".into());
                }
                let r = s.network_stats(h);
                (matches!(r, Err(GgrsError::InvalidRequest { .. })), format!("network_stats({h}) -> {r:?}"))
            }
            99 => {
                s.poll_remote_clients();
                (true, "poll".into())
            }
            _ => (true, "noop".into()),
        }
    }));
    match r {
        Ok((ok, desc)) => {
            pe.out.misuse_results.push((tick, kind, arg, ok));
            if !ok {
                viols.push(Viol { prop: "C16", clause: format!("C16.misuse_kind{kind}"), msg: format!("misuse call did not return the documented error: {desc}"), node, tick });
            }
        }
        Err(_) => {
            viols.push(Viol { prop: "PANIC", clause: format!("panic|{}", normalise(&take_panic())), msg: format!("misuse call kind {kind} arg {arg} panicked"), node, tick });
            pe.out.alive = false;
            pe.out.panicked = true;
        }
    }
    after_call(pe, pe.half);
}
