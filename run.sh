#!/bin/bash
# usage: run.sh <PROPERTY> <quick|thorough>
# Rebuilds the harness against /repo's current working tree (path dependency, feature verif-hooks)
# and runs the check. Exit 0 = held, 1 = VIOLATION, 2 = harness trouble / inconclusive.
set -u
PROP="${1:?property id}"
TIER="${2:-${VERIF_TIER:-quick}}"
export CARGO_NET_OFFLINE=true
export VERIF_DIR="$(cd "$(dirname "$0")" && pwd)"
cd "$VERIF_DIR/harness" || exit 2
LOG="$VERIF_DIR/harness/target/build-$PROP.log"
mkdir -p "$VERIF_DIR/harness/target"
if ! cargo build --release --offline >"$LOG" 2>&1; then
  echo "BUILD-FAILED property=$PROP (see $LOG)" >&2
  tail -30 "$LOG" >&2
  exit 2
fi
"$VERIF_DIR/harness/target/release/vcheck" "$PROP" --tier "$TIER" --seed "${VERIF_SEED:-0}"
RC=$?
# thorough tier: coverage-guided libFuzzer campaigns on the byte-level surfaces (C14, C08) and on
# byte-decoded small scenarios (C01); a crash is a violation, an unavailable fuzz build is only noted
if [ $RC -eq 0 ] && [ "$TIER" = "thorough" ]; then
  case "$PROP" in C14|C08|C01) python3 "$VERIF_DIR/tools/fuzz_stage.py" "$PROP" "${VERIF_SEED:-0}" || RC=1 ;; esac
fi
exit $RC
