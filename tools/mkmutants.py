#!/usr/bin/env python3
"""Generates small single-site mutants of /repo as patch files under /verif/mutants/auto/ (the tree is restored after each)."""
import subprocess, os, sys
R='/repo'
M=[
 # name, file, old, new, expected checks
 ("p01-no-input-ack","src/network/protocol.rs","            // send an input ack\n            self.send_input_ack();\n","","C05 C06 C18"),
 ("p03-pop-pending-offbyone","src/network/protocol.rs","                if input.frame <= ack_frame {","                if input.frame < ack_frame {","C01 C05 C18"),
 ("p04-accept-duplicate-input","src/network/protocol.rs","                if inp_frame <= last_recv_frame {","                if inp_frame < last_recv_frame {","C01"),
 ("p06-no-keepalive","src/network/protocol.rs","                    self.send_keep_alive();\n","","C12"),
 ("p07-interrupt-field","src/network/protocol.rs","                        .saturating_sub(self.disconnect_notify_start);","                        .saturating_sub(Duration::from_millis(0));","C07 C12"),
 ("p09-sync-packets-4","src/network/protocol.rs","const NUM_SYNC_PACKETS: u32 = 5;","const NUM_SYNC_PACKETS: u32 = 4;","C12"),
 ("p10-no-nonce-check","src/network/protocol.rs","        if !self.sync_random_requests.remove(&body.random_reply) {\n            return;\n        }","        self.sync_random_requests.remove(&body.random_reply);","C12"),
 ("p12-advantage-sign","src/network/protocol.rs","        self.local_frame_advantage = remote_frame - local_frame;","        self.local_frame_advantage = local_frame - remote_frame;","C15"),
 ("p13-rtt-half","src/network/protocol.rs","        self.round_trip_time = millis.saturating_sub(body.pong);","        self.round_trip_time = millis.saturating_sub(body.pong) / 2;","C15"),
 ("p14-retain-window","src/network/protocol.rs","                .retain(|&k, _| k >= last_recv_frame - 2 * self.max_prediction as i32);","                .retain(|&k, _| k >= last_recv_frame - 4 * self.max_prediction as i32 - 64);","C18"),
 ("p15-notify-uses-timeout","src/network/protocol.rs","                    && self.last_recv_time + self.disconnect_notify_start < now\n","                    && self.last_recv_time + self.disconnect_notify_start <= now\n","C07 C12"),
 ("p16-timeout-offbyone-ms","src/network/protocol.rs","                    && self.last_recv_time + self.disconnect_timeout < now\n","                    && self.last_recv_time + self.disconnect_timeout <= now\n","C07 C12"),
 ("p17-resume-not-reset","src/network/protocol.rs","            self.disconnect_notify_sent = false;\n            self.event_queue.push_back(Event::NetworkResumed);","            self.event_queue.push_back(Event::NetworkResumed);","C12 C07"),
 ("p18-statuses-not-merged","src/network/protocol.rs","                self.peer_connect_status[i].last_frame = std::cmp::max(","                self.peer_connect_status[i].last_frame = std::cmp::min(","C10 C06"),
 ("s16-confirmed-includes-disconnected","src/sessions/p2p_session.rs","            if !con_stat.disconnected {\n                confirmed_frame = std::cmp::min(confirmed_frame, con_stat.last_frame);","            if !con_stat.disconnected || con_stat.last_frame >= 0 {\n                confirmed_frame = std::cmp::min(confirmed_frame, con_stat.last_frame);","C07"),
 ("s17-disconnect-frame-offbyone","src/sessions/p2p_session.rs","                        last_frame + 1\n                    } else {","                        last_frame + 2\n                    } else {","C07 C10"),
 ("s22-sparse-save-gate","src/sessions/p2p_session.rs","        if self.sync_layer.current_frame() - last_saved >= self.max_prediction as i32 {","        if self.sync_layer.current_frame() - last_saved > self.max_prediction as i32 {","C05"),
 ("s23-no-reset-prediction","src/sessions/p2p_session.rs","        assert_eq!(self.sync_layer.current_frame(), frame_to_load);\n        self.sync_layer.reset_prediction();","        assert_eq!(self.sync_layer.current_frame(), frame_to_load);","C03 C01"),
 ("s26-no-history-prune","src/sessions/p2p_session.rs","                        if self.local_checksum_history.len() > MAX_CHECKSUM_HISTORY_SIZE {","                        if self.local_checksum_history.len() > MAX_CHECKSUM_HISTORY_SIZE * 1000 {","C18"),
 ("s29-fill-status-not-advanced","src/sessions/p2p_session.rs","                        self.local_connect_status[player_handle].last_frame = fill_input.frame;\n","","C11"),
 ("s30-spectator-frames-skip","src/sessions/p2p_session.rs","        while self.next_spectator_frame <= confirmed_frame {","        while self.next_spectator_frame < confirmed_frame {","C06"),
 ("s31-wait-min-2","src/sessions/p2p_session.rs","const MIN_RECOMMENDATION: u32 = 3;","const MIN_RECOMMENDATION: u32 = 2;","C15"),
 ("s32-event-cap-200","src/sessions/builder.rs","pub(crate) const MAX_EVENT_QUEUE_SIZE: usize = 100;","pub(crate) const MAX_EVENT_QUEUE_SIZE: usize = 200;","C12 C18"),
 ("s33-frames-ahead-window","src/sessions/p2p_session.rs","        if frames_ahead < self.max_prediction as i32 {","        if frames_ahead < self.max_prediction as i32 + (self.sparse_saving as i32) {","C04 C02"),
 ("s34-lockstep-saves","src/sessions/p2p_session.rs","        if self.sync_layer.current_frame() == 0 && !lockstep {","        if self.sync_layer.current_frame() == 0 {","C04"),
 ("s35-disconnect-handle-only","src/sessions/p2p_session.rs","                for &handle in endpoint.handles() {\n                    self.local_connect_status[handle].disconnected = true;\n                }","                self.local_connect_status[player_handle].disconnected = true;","C07 C03"),
 ("l31-discard-one-more","src/sync_layer.rs","                self.input_queues[i].discard_confirmed_frames(frame - 1);","                self.input_queues[i].discard_confirmed_frames(frame);","C01 C02"),
 ("l32-one-cell-less","src/sync_layer.rs","        let num_cells = max_pred + 1;","        let num_cells = max_pred.max(1);","C02 C01"),
 ("l33-confirmed-inputs-le","src/sync_layer.rs","            if con_stat.disconnected && con_stat.last_frame < frame {\n                inputs.push(PlayerInput::blank_input(NULL_FRAME));","            if con_stat.disconnected && con_stat.last_frame <= frame {\n                inputs.push(PlayerInput::blank_input(NULL_FRAME));","C07 C06"),
 ("q35-no-requested-clamp","src/input_queue.rs","        if self.last_requested_frame != NULL_FRAME {\n            frame = cmp::min(frame, self.last_requested_frame);\n        }","","C01"),
 ("q37-predict-frame0","src/input_queue.rs","                if requested_frame == 0 || self.last_added_frame == NULL_FRAME {","                if self.last_added_frame == NULL_FRAME {","C03"),
 ("q38-drop-equal","src/input_queue.rs","        if expected_frame > input_frame {\n            return NULL_FRAME;","        if expected_frame >= input_frame && input_frame > 0 && self.frame_delay > 6 {\n            return NULL_FRAME;","C11"),
 ("v40-catchup-ge","src/sessions/p2p_spectator_session.rs","        let frames_to_advance = if frames_behind > self.max_frames_behind {","        let frames_to_advance = if frames_behind >= self.max_frames_behind {","C06"),
 ("v41-catchup-uncapped","src/sessions/p2p_spectator_session.rs","            self.catchup_speed\n                .min(frames_behind)\n","            self.catchup_speed\n","C06"),
 ("v42-no-too-far-check","src/sessions/p2p_spectator_session.rs","        if player_inputs[0].frame > frame_to_grab {\n            return Err(GgrsError::SpectatorTooFarBehind);\n        }","","C06"),
 ("v43-status-stale","src/sessions/p2p_spectator_session.rs","                    self.host_connect_status[i] = self.host.peer_connect_status(i);","                    if !self.host_connect_status[i].disconnected { self.host_connect_status[i] = self.host.peer_connect_status(i); }","C06 C07"),
 ("b44-no-revalidation","src/sessions/builder.rs","        for (&player_handle, player_type) in &self.player_reg.handles {\n            Self::validate_player_handle(player_type, player_handle, num_players)?;\n        }","","C16"),
 ("b45-spectator-handle-le","src/sessions/builder.rs","                if player_handle < num_players {","                if player_handle <= num_players {","C16"),
 ("b46-synctest-gt","src/sessions/builder.rs","        if self.check_dist >= self.max_prediction {","        if self.check_dist > self.max_prediction {","C16 C13"),
 ("b47-max-behind-gt","src/sessions/builder.rs","        if max_frames_behind >= SPECTATOR_BUFFER_SIZE {","        if max_frames_behind > SPECTATOR_BUFFER_SIZE {","C16"),
 ("b48-desync0-accepted","src/sessions/builder.rs","        if let DesyncDetection::On { interval: 0 } = self.desync_detection {","        if let DesyncDetection::On { interval: 9999 } = self.desync_detection {","C16"),
 ("t48-history-prune-early","src/sessions/sync_test_session.rs","        let oldest_allowed_frame = self.sync_layer.current_frame() - self.check_distance as i32;","        let oldest_allowed_frame = self.sync_layer.current_frame() - self.check_distance as i32 + 1;","C13"),
 ("t49-check-range-exclusive","src/sessions/sync_test_session.rs","            let mismatched_frames: Vec<_> = (oldest_frame_to_check..=current_frame)","            let mismatched_frames: Vec<_> = (oldest_frame_to_check + 1..=current_frame)","C13"),
 ("t50-rollback-one-less","src/sessions/sync_test_session.rs","            let frame_to = self.sync_layer.current_frame() - self.check_distance as i32;\n            self.adjust_gamestate(frame_to, &mut requests);","            let frame_to = self.sync_layer.current_frame() - self.check_distance as i32 + 1;\n            if frame_to < self.sync_layer.current_frame() { self.adjust_gamestate(frame_to, &mut requests); }","C13"),
 ("c50-len-prefix-u8","src/network/compression.rs","        bytes.extend_from_slice(&(input.len() as u16).to_le_bytes());","        bytes.extend_from_slice(&(input.len() as u8 as u16).to_le_bytes());","C14"),
 ("c52-xor-skip-last","src/network/compression.rs","        for (b1, b2) in base.iter().zip(input.iter()) {\n            bytes.push(b1 ^ b2);\n        }\n        if input.len() > base.len() {","        for (b1, b2) in base.iter().zip(input.iter()) {\n            bytes.push(b1 ^ b2);\n        }\n        if input.len() > base.len() && base.len() < 4096 {","C14"),
 ("c53-validate-shift","src/network/compression.rs","            if shift > 56 {","            if shift > 63 {","C14"),
 ("c54-max-decoded-huge","src/network/compression.rs","const MAX_DECODED_LEN: usize = 160 * (2 + u16::MAX as usize);","const MAX_DECODED_LEN: usize = 16000 * (2 + u16::MAX as usize);","C14"),
 ("y39-timesync-window","src/time_sync.rs","        ((remote_avg - local_avg) / 2.0) as i32","        ((remote_avg - local_avg) / 4.0) as i32","C15"),
]
os.makedirs('/verif/mutants/auto',exist_ok=True)
ok=0
idx=[]
for name,f,old,new,exp in M:
    p=os.path.join(R,f); s=open(p).read()
    if s.count(old)!=1:
        print("SKIP",name,"occurrences",s.count(old)); continue
    open(p,'w').write(s.replace(old,new,1))
    d=subprocess.run(['git','-C',R,'diff'],capture_output=True,text=True).stdout
    subprocess.run(['git','-C',R,'checkout','--','.'])
    open('/verif/mutants/auto/%s.diff'%name,'w').write(d); ok+=1; idx.append((name,exp))
open('/verif/mutants/auto/INDEX.txt','w').write(''.join('%s %s\n'%(n,e) for n,e in idx))
print(ok,"mutants written")
