#!/usr/bin/env python3
"""Generates /verif/MANIFEST.json from the table below and validates it against the schema."""
import json, sys, os
V = os.path.dirname(os.path.dirname(os.path.abspath(__file__)))
HOOK_COMMITS = ["cd80d8c"]
FIX_COMMITS = ["19db2e0", "612f831", "571a0e7", "96684bc", "f012a8c", "eccf4bb", "14aaa4b", "54e5379", "46b26ac", "cb1d70b", "8661656", "47bfbed", "2e0e12f"]
SIM_NOTE = ("Trusted base: the harness simulator (virtual clock + deterministic rand via the verif-hooks feature, simulated "
            "network whose per-packet fates are a pure function of (seed, link, per-link counter), strict request-executing game, "
            "30-line reference model of the delayed input stream) and proptest 1.11. Absence is not established: the claim is "
            "'held on every generated case', with counts, class histogram and samples in the evidence file.")
CHECKS = {
 "C01": dict(cat="exploration", ref="§6 C01", technique="property-based testing (proptest) of simulated multi-peer sessions against a serial-replay oracle and a reference model of the delayed input stream",
   text="Stateful property-based exploration: thousands of generated 2-4 peer scenarios (topology, windows, delays, sparse, predictors, input types, jittered schedules, per-link loss/dup/reorder, outages, pauses; 300-1500 ticks quick, 3000-6000 thorough) run against the real sessions; after every advance_frame call every newly confirmed frame's inputs are compared with the reference model of the true delayed input stream, and at the end every peer's state at every mutually confirmed frame is compared with the harness's own serial replay. Exploration is the right level: the property quantifies over schedules x faults x histories, which only generated search can sample broadly; it cannot prove absence."),
 "C02": dict(cat="exploration", ref="§6 C02", technique="property-based testing with a strict request-executing game as oracle (P2P, spectator and SyncTest sessions)",
   text="Every request of every call in generated P2P (incl. lockstep, stall-heavy starvation cases), spectator and SyncTest runs is executed by a strict game that checks it while executing: save frame, load target earlier/within window/cell holds exactly the last state saved for that frame and equal to the fold of the current timeline, gapless advances, frame equality and per-call delta afterwards, Save(0) before the first simulation."),
 "C03": dict(cat="exploration", ref="§6 C03", technique="property-based testing; per-request status oracle from the reference input model, a connection-status accessor and an independent network ledger",
   text="For every AdvanceFrame request (first simulations and resimulations) of generated scenarios, every (value, status) pair is judged against the true input stream, the per-player connection status read through the hook accessor and the ledger of delivered frames; finality of confirmed frames and monotonicity of confirmed_frame() are checked on-line."),
 "C04": dict(cat="exploration", ref="§6 C04", technique="property-based testing with starvation schedules; window bound checked against accessor and network ledger; lockstep no-save/no-load/no-prediction invariants",
   text="Generated scenarios with windows 0..=12 (weighted to 0 and 1) in which one link is starved for up to 30 s (disconnect timeout raised); every first simulation is checked against the newest frame held for all connected players (accessor, and independently the ledger of delivered input frames), every load against the window, and lockstep sessions against the no-save/no-load/only-confirmed/stall-leaves-frame-unchanged rules, also through advance_frame_with_wait under an auto-ticking virtual clock."),
 "C14": dict(cat="exploration", ref="§6 C14", technique="property-based round-trip testing (proptest + bounded-exhaustive small alphabets) and exhaustive/random decoder totality sweeps in supervised child processes with a counting allocator",
   text="Round trip: 200k (quick) / 1.5M (thorough) generated (reference, sequence) pairs biased to 0x00/0xFF runs plus inputs up to 65535 bytes plus a bounded-exhaustive sweep over alphabet {00,01,80,FF}. Totality: every byte string of length <= 3 against three references and tens of millions of random/mutated strings are decoded by the real decoder inside child processes under RLIMIT_AS with a counting allocator; a panic, an abort (process death, attributed by bisection) or a peak allocation above 4x128x65537 bytes is a violation. The defect this found on the pinned tree was repaired by a fix: commit; its inputs are replayed as regression cases.",
   note="Trusted base: proptest, the harness's counting global allocator and child-process supervisor; the codec is reached through the verif-hooks re-export of compression::{encode,decode}. The allocation bound (4 x 128 x (2+65535) bytes) is the harness's reading of 'a small multiple of what a legitimate packet can contain'."),
 "C05": dict(cat="fault_enumeration", ref="§6 C05", technique="bounded-exhaustive fault placement (k=1 exhaustive, k=2 exhaustive in thorough / sampled in quick) plus proptest burst outages, with a bounded-liveness oracle under the virtual clock",
   text="Fault enumeration: for 72 base configurations (windows 0/1/2/8, delays, latencies, 2 players / 2 players+spectator built with the same window / 3 players) every single fault (drop, duplicate, +300 ms) on each of the M packets after a seeded offset on every directed link, every pair of faults within 8 packets (thorough), and random burst outages/loss phases; after the faults a 6 s clean phase must show every player and spectator session Running and advancing, no Disconnected event, C01-C03 clauses intact and the spectator stream identical to the host's. This is the level at which 'any lost acknowledgement, in any protocol state' can be decided short of a proof: explicit enumeration of fault placements with the clock under harness control."),
 "C06": dict(cat="exploration", ref="§6 C06", technique="property-based testing of host+spectator topologies; oracle = host's final confirmed timeline, per-call catch-up rule, metamorphic twin without spectators",
   text="Generated host/spectator scenarios (slow and pausing spectators, all catch-up settings, loss/reorder, a player dying on the host side) compare every frame the spectator advanced with the host's final timeline (values and Disconnected flags), check contiguity, 'never beyond host.confirmed_frame()', the per-call step rule from frames_behind_host(), that errors never move the cursor, and that players' confirmed inputs are identical with and without spectators."),
 "C07": dict(cat="fault_enumeration", ref="§6 C07", technique="enumeration of the moment of death x amount of in-flight input over 288 base configurations; exact event-instant predictor from poll instants and packet deliveries; final-timeline oracle",
   text="Fault enumeration over the moment a remote dies (every tick of a 120-tick window in thorough, every 5th in quick) x how much of its last traffic still arrives x 288 configurations (rollback/lockstep, sparse, 1-2 players per side, spectator, latency, four timeout settings), plus explicit disconnect_player calls. The NetworkInterrupted/Disconnected instants and multiplicity are predicted exactly from the survivor's poll instants and the packet deliveries recorded by the simulated network; the survivor's final timeline must carry real inputs up to the last received frame and default/Disconnected afterwards, and its spectator must see the same."),
 "C08": dict(cat="exploration", ref="§6 C08", technique="property-based packet forging inside live simulated sessions with a metamorphic twin (same run without the forged packets), exhaustive short-payload sweep, regression replays of two repaired defects",
   text="1-24 forged packets (wrong status count, negative start frame, garbage and structured-malformed payloads, wrong-size frames, unknown source, foreign magic on current packets / on a stale session's first packet / on any message class) are injected at arbitrary ticks of the handshake, running and after-disconnect states of 2-3 peer sessions; there must be no panic and the delivered inputs, states, per-address events and disconnect flags must equal those of the twin run; lossy variants check that valid traffic keeps being processed (C01/C03 clauses, serial replay); every payload of length <= 2 (quick) / <= 3 (thorough) is injected into a live endpoint. Allocation/abort behaviour of arbitrary payloads is decided by C14's supervised sweeps of the same decode entry point."),
 "C09": dict(cat="exploration", ref="§6 C09", technique="property-based testing (false-alarm half over C01's space with detection on) and enumeration of divergence frame x interval (detection half) with a deterministically diverging game",
   text="False-alarm half: any DesyncDetected in thousands of generated deterministic-game scenarios (intervals 1..=12, sparse on/off, loss, rollbacks) is a violation. Detection half: for every interval 1..=12 and divergence frame 1..=200 one peer's state really diverges; every peer of a differing pair must report a frame in [F, F+2*interval] carrying the two checksums the games really saved, and nothing before F or between agreeing peers."),
 "C10": dict(cat="fault_enumeration", ref="§6 C10", technique="enumeration of the moment of death x split of the dying peer's last packets between survivors in 3-4 peer sessions; cross-survivor agreement oracle after a settle phase; known finding keyed on an exact signature",
   text="Fault enumeration over 3-4 peer rollback sessions: moment of death x how many of the dying peer's last packets one survivor misses. After a settle phase all survivors must be alive, have identical values/Disconnected flags for the dropped player and identical states on every frame. On the pinned tree every case in which the survivors really hold different amounts of input panics (two signatures, recorded as known findings: not a small repair); the check therefore establishes 'no violation other than the listed ones' and full agreement whenever the survivors' views coincide."),
 "C11": dict(cat="exploration", ref="§6 C11", technique="stateful property-based testing: generated sequences of set_input_delay calls inside simulated sessions, judged against a reference model of the delayed input stream on owner, remotes and spectators",
   text="Generated sequences of 1-8 delay changes (before the first frame, in quick succession, while stalled, several local players with different delays, spectators attached) inside C01-style scenarios; the owner's, every remote's and every spectator's inputs must equal the reference model, nothing may panic, stay stranded in the outgoing buffer or stop advancing. Two genuine defects found this way were repaired by fix: commits and are replayed as regression cases."),
 "C12": dict(cat="exploration", ref="§6 C12", technique="property-based testing of lossy/duplicating handshakes with forged stray replies (grammar + nonce ledger), enumeration of silence lengths around notify/timeout with an exact event predictor, poll-only and never-drained scenarios",
   text="Per-address event grammar and a ledger of matched sync nonces under generated loss/duplication/reordering and injected stray, replayed and foreign replies; bounded enumeration of silence periods in 10 ms steps around the notify delay and the timeout for four timeout settings, three poll cadences and spectators, with the exact Interrupted/Resumed/Disconnected sequence predicted from poll instants and deliveries; 30 s poll-only runs with default timeouts; never-drained sessions for the 100-entry bound. Two genuine defects were repaired by fix: commits."),
 "C13": dict(cat="exploration", ref="§6 C13", technique="bounded-exhaustive enumeration of SyncTest configurations and of perturbation placements (frame x simulation-index pattern) with a deterministic / deliberately non-deterministic game",
   text="Bounded-exhaustive: every builder configuration in players 1..=4 x window 1..=10 x check distance 0..=11 x delay {0,1,3,7} x sparse (invalid ones must be rejected, valid ones run 120 frames with a deterministic game and must never report a mismatch, with C02's executor and an input oracle), plus every placement of a non-deterministic step (frame F x which simulations of F differ) for check distances >= 2, where detection must come within check_distance+2 frames naming frame F+1. One genuine defect is recorded as a known finding (first-simulation-only non-determinism is never compared)."),
 "C15": dict(cat="exploration", ref="§6 C15", technique="bounded enumeration of steady-lead schedules (lead x latency x fps x delay) under the virtual clock with millisecond polling; oracle from the configured lead and the link's true round-trip time",
   text="For every lead k in -7..=7, eight symmetric latencies 0..=100 ms, three fps settings and two delays, two peers tick in lock step after one of them skipped |k| ticks; sampled after a warm-up, frames_ahead() must be within one frame of +k / -k with a sum within one frame of zero, WaitRecommendation must only come with frames_ahead() >= 3, carry that value, keep 60 frames distance and actually come when |k| >= 4, ping must lie in [2L, 2L + one tick], one side's local_frames_behind must match the other's remote_frames_behind, and network_stats() must say NotEnoughData before one second."),
 "C16": dict(cat="exploration", ref="§6 C16", technique="bounded-exhaustive builder call sequences (length <= 3 quick, plus sampled length 4 thorough) and random programs against a reference validity predicate, running every accepted configuration; metamorphic misuse-call insertion with a twin run",
   text="Every sequence of up to 3 builder calls over small value domains (67 calls) x 3 start methods is compared call by call with a reference predicate written from the rustdoc (about 900k programs), plus random longer programs; every accepted configuration is then started and driven together with complementary sessions for every other address (P2P), with the strict game (SyncTest) or alone (spectator) and must not panic or return unexpected errors. Misuse calls inserted at arbitrary points of valid simulated runs must return the documented error and leave request traces, states, events and connection status identical to the twin run without them."),
 "C17": dict(cat="exploration", ref="§6 C17", technique="metamorphic replication: every generated scenario is executed three times in fresh OS threads (fresh HashMap RandomState, different handshake random numbers) and all listed observables are compared",
   text="Each generated scenario (weighted to several local players per peer, 3-4 peers, desync reports including real desyncs, delay changes, deaths) is executed three times inside one process; replicas run in fresh OS threads so that every HashMap gets new random keys, and with different handshake/magic numbers. Request-list traces, all game states, per-address event sequences with timestamps and per-link sent packet counts must be identical. Hash order cannot be forced, only sampled: a dependence that needs one specific order of several keys can be missed."),
 "C18": dict(cat="exploration", ref="§6 C18", technique="property-based long-history runs (2000-9000 ticks) sampling every internal buffer size after every call through a hook accessor, against configuration-derived bounds and a first-half/second-half drift test",
   text="Long generated runs over C01's topologies plus all-local sessions, never-drained sessions, silent spectators and 40%-loss phases; after every API call the sizes of the event queue, outgoing local inputs, per-endpoint pending outputs, received-input history, checksum maps and send queue are read through the verif-hooks accessor and compared with bounds that depend only on the configuration; the maximum over the second half of the run is compared with the first half to expose slow leaks; a silent spectator must be disconnected exactly once."),
}
PENDING_REASON = "check not yet built in this commit (implementation in progress; see DESIGN.md §6 for the planned design)"
ALL = ["C%02d" % i for i in range(1, 19)]
def main():
    checks = []
    for pid in ALL:
        if pid not in CHECKS: continue
        c = CHECKS[pid]
        checks.append({
            "property_id": pid,
            "quick_cmd": f"./run.sh {pid} quick",
            "thorough_cmd": f"./run.sh {pid} thorough",
            "evidence_file": f"/verif/evidence/{pid}.json",
            "replay_cmd_template": "./harness/target/release/vcheck replay {path}",
            "engine": "vcheck",
            "level_claimed": {"category": c["cat"], "text": c["text"], "design_ref": c["ref"]},
            "level_note": c.get("note", SIM_NOTE),
            "technique": c["technique"],
        })
    m = {
        "version": 1,
        "setup_cmd": "cd /verif/harness && CARGO_NET_OFFLINE=true cargo build --release --offline",
        "hooks": {
            "guard": "cargo feature verif-hooks",
            "enable": "path dependency ggrs = { path = \"/repo\", features = [\"verif-hooks\"] } in /verif/harness/Cargo.toml",
            "baseline_off_cmd": "cd /repo && cargo test --workspace --no-fail-fast --offline",
            "source_commits": HOOK_COMMITS,
            "add_only": True,
        },
        "engines": [
            {"name": "vcheck", "path": "/verif/harness", "serves_properties": [c["property_id"] for c in checks],
             "kind_free_text": "Rust binary: deterministic multi-session simulator (virtual clock, simulated network, strict game, reference models) driven by proptest strategies and bounded-exhaustive enumerations; shrinks failures to JSON replay files"},
        ],
        "checks": checks,
        "notes": "Every check: exit 0 = held on everything explored (KNOWN-FINDING lines for findings listed in /verif/KNOWN_FINDINGS.txt), exit 1 + 'VIOLATION property=<id> replay=<path>' = new violation, exit 2 = build failure or inconclusive run (never a violation). VERIF_SEED selects the proptest seeds.",
        "not_applicable": [{"property_id": p, "reason": PENDING_REASON} for p in ALL if p not in CHECKS],
    }
    json.dump(m, open(os.path.join(V, "MANIFEST.json"), "w"), indent=1)
    try:
        import jsonschema
        jsonschema.validate(m, json.load(open("/root/.vp/MANIFEST.schema.json")))
        print("MANIFEST.json valid;", len(checks), "checks")
    except ImportError:
        print("jsonschema not available; written unvalidated")
if __name__ == "__main__":
    main()
