#!/bin/bash
# usage: tools/sensitivity.sh [auto|revert|seeded|all]
# Runs every stored mutant against the quick checks expected to see it, in a private scratch copy of
# /repo + /verif/harness under /tmp/vsens (removed at the end). Never touches /repo or /verif/evidence.
# Output: one line per mutant: <name> caught=<0|1> [<check> rc=<rc> <first violation>]...
set -u
WHAT="${1:-all}"
S=/tmp/vsens
rm -rf $S; mkdir -p $S/out
rsync -a --exclude target /repo/ $S/repo/
rsync -a --exclude target /verif/harness/ $S/harness/
sed -i "s|path = \"/repo\"|path = \"$S/repo\"|" $S/harness/Cargo.toml
cd $S/repo && git checkout -q -- . 
LIST=$S/list.txt; : > $LIST
if [ "$WHAT" = auto ] || [ "$WHAT" = all ]; then
  while read N E; do echo "/verif/mutants/auto/$N.diff $E" >> $LIST; done < /verif/mutants/auto/INDEX.txt
fi
if [ "$WHAT" = revert ] || [ "$WHAT" = all ]; then
  # reverse patches of the fix commits: the property each fix belongs to is in KNOWN_FINDINGS.txt
  for f in /verif/mutants/revert/*.diff; do
    h=$(basename $f .diff | sed 's/revert-//; s/+.*//')
    P=$(grep "^fixed:" /verif/KNOWN_FINDINGS.txt | grep "$h" | sed 's/.*property=\(C[0-9]*\).*/\1/' | sort -u | tr '\n' ' ')
    [ -n "$P" ] && echo "$f $P" >> $LIST
  done
fi
if [ "$WHAT" = seeded ] || [ "$WHAT" = all ]; then
  for d in /verif/seeded/C*/; do
    P=$(python3 -c "import json,sys; m=json.load(open('$d/meta.json')); print(' '.join(m['verified_by_me']['caught_by_checks']))")
    echo "$d/patch.diff $P" >> $LIST
  done
fi
while read PATCH EXP; do
  git checkout -q -- . ; git clean -fdq src
  NAME=$(echo $PATCH | sed 's|/verif/||; s|/patch.diff||; s|.diff||')
  if ! git apply $PATCH 2>/dev/null; then echo "$NAME APPLY-FAILED (superseded by a later commit?)"; continue; fi
  (cd $S/harness && cargo build --release --offline >$S/build.log 2>&1) || { echo "$NAME BUILD-FAILED"; continue; }
  RES=""; CAUGHT=0
  for P in $EXP; do
    OUT=$(VERIF_DIR=/verif VERIF_OUT=$S/out $S/harness/target/release/vcheck $P 2>&1); RC=$?
    SIG=$(echo "$OUT" | grep -E '^violation' | head -1 | cut -c1-140)
    RES="$RES [$P rc=$RC $SIG]"; [ $RC -eq 1 ] && CAUGHT=1
  done
  echo "$NAME caught=$CAUGHT $RES"
done < $LIST
cd /; rm -rf $S
