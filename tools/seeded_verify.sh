#!/bin/bash
# usage: tools/seeded_verify.sh <ID> [check props...]
# 1) confirms the sub-agent's claims in its scratch worktree /tmp/wt/<ID> (patch applies, suite passes with it,
#    demo passes without / fails with), 2) applies the patch to /repo, runs the given quick checks, restores /repo.
set -u
ID="$1"; shift
WT=${WTBASE:-/tmp/wt}/$ID; OUT=${OUTBASE:-/tmp/wtout}/$ID
DEMO=$(ls $OUT/demo_*.rs 2>/dev/null | head -1)
[ -f "$OUT/patch.diff" ] || { echo "no patch.diff"; exit 2; }
cd $WT || exit 2
git checkout -q -- . ; git clean -fdq tests src examples 2>/dev/null
# worktree may be behind /repo HEAD: bring it to the current HEAD so the patch is judged against the current tree
git checkout -q --detach $(git -C /repo rev-parse HEAD) 2>/dev/null
NAME=$(basename "$DEMO" .rs)
if [ -n "$DEMO" ]; then cp "$DEMO" tests/; fi
echo "--- demo WITHOUT change"; cargo test --offline --test $NAME 2>&1 | grep -E "^test result|error\[" | head -3
if ! git apply --check $OUT/patch.diff 2>/dev/null; then echo "PATCH DOES NOT APPLY to current HEAD"; git checkout -q -- .; rm -f tests/$NAME.rs; exit 3; fi
git apply $OUT/patch.diff
echo "--- suite WITH change"; rm -f tests/$NAME.rs; cargo test --workspace --no-fail-fast --offline 2>&1 | grep -E "^test result|FAILED" | awk '{print $1,$2,$3,$4,$5,$6,$7}' | sort | uniq -c | head -6
cp "$DEMO" tests/ 2>/dev/null
echo "--- demo WITH change"; cargo test --offline --test $NAME 2>&1 | grep -E "^test result|error\[" | head -3
git checkout -q -- . ; rm -f tests/$NAME.rs
echo "--- my checks against the change"
/verif/tools/mutant_scratch.sh $OUT/patch.diff "$@"
