#!/bin/bash
# usage: tools/mutant.sh <patch.diff> <PROP> [PROP...]
# Applies a patch to /repo's working tree, runs the quick checks, and always restores the tree.
set -u
PATCH="$(readlink -f "$1")"; shift
cd /repo || exit 2
if ! git diff --quiet; then echo "/repo working tree not clean" >&2; exit 2; fi
if ! git apply "$PATCH"; then echo "patch does not apply" >&2; exit 2; fi
trap 'git -C /repo checkout -- . ; git -C /repo clean -fdq src; (cd /verif/harness && cargo build --release --offline >/dev/null 2>&1)' EXIT
for P in "$@"; do
  OUT=$(VERIF_OUT=/tmp/vmut /verif/run.sh "$P" quick 2>&1); RC=$?
  echo "== $P rc=$RC: $(echo "$OUT" | grep -E '^(VIOLATION|violation|OK|INCONCLUSIVE|BUILD-FAILED)' | head -3 | tr '\n' ' ')"
done
