#!/usr/bin/env python3
"""Systematic single-token mutation sweep over gschup/ggrs' non-test source.

usage: tools/mutsweep.py list                       -> prints the mutation sites (id file:line old -> new)
       tools/mutsweep.py run [first [last]]         -> runs sites first..last (default all) in a private scratch
                                                       copy under /tmp/vsweep (removed at the end); one result line
                                                       per site is appended to /verif/mutants/sweep/RESULTS.tsv

For each site: apply the token change to the scratch copy of /repo, rebuild the harness against it (a change
that does not compile is skipped), run the quick checks mapped to the file (most likely first) until one
reports a violation; if none does, run the repository's own pinned suite to see whether the change would have
been noticed by it.  Nothing in /repo or /verif/evidence is touched.
Result column: caught:<check> | survived(suite-pass) | survived(suite-fail) | nocompile
"""
import os, re, subprocess, sys, shutil, time

REPO = '/repo'
S = '/tmp/vsweep'
FILES = {
    'src/input_queue.rs': 'C01 C03 C11 C02 C05 C06 C13',
    'src/sync_layer.rs': 'C01 C02 C04 C03 C07 C06 C13 C09 C10',
    'src/time_sync.rs': 'C15 C18',
    'src/frame_info.rs': 'C01 C14 C08',
    'src/network/compression.rs': 'C14 C08 C01',
    'src/network/protocol.rs': 'C05 C12 C07 C08 C01 C15 C18 C06 C09 C10 C17',
    'src/network/messages.rs': 'C08 C01',
    'src/sessions/builder.rs': 'C16 C13 C12 C06',
    'src/sessions/p2p_session.rs': 'C01 C02 C04 C07 C03 C06 C11 C10 C09 C05 C16 C18 C12 C15 C17',
    'src/sessions/p2p_spectator_session.rs': 'C06 C02 C12 C05 C18 C16',
    'src/sessions/sync_test_session.rs': 'C13 C02 C16',
}
ALL = ['C%02d' % i for i in range(1, 19)]

RULES = [
    (r' <= ', ' < '), (r' < ', ' <= '), (r' >= ', ' > '), (r' > ', ' >= '),
    (r' == ', ' != '), (r' != ', ' == '),
    (r' && ', ' || '), (r' \|\| ', ' && '),
    (r' \+ 1\b', ' - 1'), (r' - 1\b', ' + 1'), (r' \+ 1\b', ' + 2'), (r' - 1\b', ' - 2'),
    (r'\bmin\(', 'max('), (r'\bmax\(', 'min('),
    (r' = true;', ' = false;'), (r' = false;', ' = true;'),
    (r' \+= 1;', ' += 2;'), (r' -= 1;', ' -= 2;'),
    (r'\bcontinue;', 'break;'), (r'\bbreak;', 'continue;'),
    (r'\breturn;', '{}'),
]


def code_lines(path):
    """(lineno, text) of lines outside #[cfg(test)] modules, comments, asserts and trace macros."""
    out = []
    lines = open(path).read().split('\n')
    skip_from = None
    for i, l in enumerate(lines):
        if l.strip().startswith('#[cfg(test)]'):
            skip_from = i
            break
    for i, l in enumerate(lines):
        if skip_from is not None and i >= skip_from:
            break
        s = l.strip()
        if s.startswith('//') or s.startswith('#[') or s.startswith('use ') or s.startswith('pub use '):
            continue
        if re.match(r'(debug_)?assert(_eq|_ne)?!', s) or s.startswith('trace!') or s.startswith('debug!'):
            continue
        if 'fn ' in s and '->' in s:   # signatures: generics / lifetimes
            continue
        if re.search(r'\b(impl|struct|enum|trait|type|where)\b', s):
            continue
        out.append((i, l))
    return out, lines


def sites():
    res = []
    for f in FILES:
        cl, _ = code_lines(os.path.join(REPO, f))
        for (i, l) in cl:
            code = l.split('//')[0]
            for (pat, new) in RULES:
                for m in re.finditer(pat, code):
                    res.append((f, i, m.start(), m.end(), m.group(0), new))
    return res


def sh(cmd, cwd=None, timeout=None, env=None):
    try:
        p = subprocess.run(cmd, shell=True, cwd=cwd, stdout=subprocess.PIPE, stderr=subprocess.STDOUT, timeout=timeout, env=env)
        return p.returncode, p.stdout.decode(errors='replace')
    except subprocess.TimeoutExpired:
        return 124, 'timeout'


def main():
    st = sites()
    if len(sys.argv) < 2 or sys.argv[1] == 'list':
        for k, (f, i, a, b, old, new) in enumerate(st):
            print(k, '%s:%d' % (f, i + 1), repr(old), '->', repr(new))
        return
    first = int(sys.argv[2]) if len(sys.argv) > 2 else 0
    last = int(sys.argv[3]) if len(sys.argv) > 3 else len(st) - 1
    step = int(sys.argv[4]) if len(sys.argv) > 4 else 1
    os.makedirs('/verif/mutants/sweep', exist_ok=True)
    resf = '/verif/mutants/sweep/RESULTS.tsv'
    shutil.rmtree(S, ignore_errors=True)
    os.makedirs(S + '/out')
    sh('rsync -a --exclude target %s/ %s/repo/' % (REPO, S))
    sh('rsync -a --exclude target /verif/harness/ %s/harness/' % S)
    sh('sed -i \'s|path = "/repo"|path = "%s/repo"|\' %s/harness/Cargo.toml' % (S, S))
    sh('git checkout -q -- .', cwd=S + '/repo')
    env = dict(os.environ, CARGO_NET_OFFLINE='true', VERIF_DIR='/verif', VERIF_OUT=S + '/out')
    done = set()
    if os.path.exists(resf):
        for l in open(resf):
            done.add(l.split('\t')[0])
    for k in range(first, last + 1, step):
        f, i, a, b, old, new = st[k]
        key = '%s:%d:%d:%s' % (f, i + 1, a, new.strip())
        if key in done:
            continue
        path = os.path.join(S, 'repo', f)
        orig = open(os.path.join(REPO, f)).read()
        lines = orig.split('\n')
        l = lines[i]
        lines[i] = l[:a] + new + l[b:]
        open(path, 'w').write('\n'.join(lines))
        t0 = time.time()
        rc, out = sh('cargo build --release --offline', cwd=S + '/harness', env=env, timeout=900)
        result = None
        detail = ''
        if rc != 0:
            result = 'nocompile'
        else:
            # only the checks mapped to the file (a survivor would otherwise cost all 18 checks)
            order = FILES[f].split()
            for c in order:
                rc, out = sh('%s/harness/target/release/vcheck %s' % (S, c), env=env, timeout=1800)
                if rc == 1:
                    v = [x for x in out.split('\n') if x.startswith('violation')]
                    result = 'caught:' + c
                    detail = (v[0] if v else '')[:160]
                    break
                if rc not in (0, 1):
                    detail += ' %s:rc=%d' % (c, rc)
            if result is None:
                rc, out = sh('cargo test --offline --workspace --no-fail-fast 2>&1 | grep -E "^test result|FAILED|failed" | head -5', cwd=S + '/repo', env=env, timeout=1800)
                bad = ('FAILED' in out) or ('failed' in out and ' 0 failed' not in out.replace('; 0 failed', ' 0 failed'))
                bad = bool(re.search(r'[1-9][0-9]* failed', out)) or 'FAILED' in out
                result = 'survived(suite-fail)' if bad else 'survived(suite-pass)'
        open(path, 'w').write(orig)
        line = '%s\t%s\t%s\t%s\t%s\t%ds' % (key, l.strip()[:100], old.strip() + '->' + new.strip(), result, detail.strip(), time.time() - t0)
        with open(resf, 'a') as fh:
            fh.write(line + '\n')
        print(k, line, flush=True)
    shutil.rmtree(S, ignore_errors=True)


main()
