#!/usr/bin/env python3
"""usage: isolate_ops.py <replay.json> [OpKind]  - re-runs the case with only one op of the given kind (default Forge) at a time"""
import json,subprocess,copy,sys
d=json.load(open(sys.argv[1])); kind=sys.argv[2] if len(sys.argv)>2 else 'Forge'
c=d['case']
print({k:c[k] for k in ['peers','specs','link','ticks','max_pred','sched','sparse','wide','timeout_ms','predictor','desync']}, [o for o in c['ops'] if kind not in o])
ops=[o for o in c['ops'] if kind in o]
for i,f in enumerate(ops):
    cc=copy.deepcopy(c); cc['ops']=[o for o in c['ops'] if kind not in o]+[f]
    fn='/tmp/iso%d.json'%i
    json.dump({'property':d['property'],'part':d['part'],'case':cc},open(fn,'w'))
    r=subprocess.run(['/verif/harness/target/release/vcheck','replay',fn],capture_output=True,text=True)
    print(i, f[kind], ('VIOL '+r.stdout.split('reproduces:')[1][:300]) if 'reproduces' in r.stdout else 'ok')
