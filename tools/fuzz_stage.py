#!/usr/bin/env python3
"""Thorough-tier extension: coverage-guided libFuzzer campaigns (cargo-fuzz) for a property.
usage: fuzz_stage.py <PROP> <seed>
Exit 0: no crash (or the fuzz build is unavailable: noted, never an alarm), 1: crash = violation (prints VIOLATION line).
Appends a 'fuzz' list to /verif/evidence/<PROP>.json."""
import json, os, re, shutil, subprocess, sys, time
prop, seed = sys.argv[1], int(sys.argv[2])
V = os.path.dirname(os.path.dirname(os.path.abspath(__file__)))
PLAN = {
 "C14": [("codec_decode", 150_000, 48), ("codec_roundtrip", 60_000, 2048)],
 "C08": [("codec_decode", 80_000, 48)],
 "C01": [("sim_bytes", 10_000, 256)],
}
if prop not in PLAN: sys.exit(0)
env = dict(os.environ, CARGO_NET_OFFLINE="true")
results = []
for target, runs, max_len in PLAN[prop]:
    b = subprocess.run(["cargo", "+nightly", "fuzz", "build", "--fuzz-dir", V + "/fuzz", target], cwd=V + "/harness", env=env, capture_output=True, text=True)
    if b.returncode != 0:
        print(f"[{prop}:fuzz:{target}] cargo-fuzz build unavailable here, stage skipped: {b.stderr.strip().splitlines()[-1] if b.stderr.strip() else ''}")
        results.append({"target": target, "skipped": "build failed"}); continue
    corpus = f"{V}/fuzz/corpus-run/{target}"
    shutil.rmtree(corpus, ignore_errors=True); os.makedirs(corpus)
    seeds = f"{V}/fuzz/seeds/{target}"
    if os.path.isdir(seeds):
        for f in os.listdir(seeds): shutil.copy(os.path.join(seeds, f), corpus)
    art = f"{V}/fuzz/artifacts/{target}/"
    os.makedirs(art, exist_ok=True)
    before = set(os.listdir(art))
    t = time.time()
    r = subprocess.run(["cargo", "+nightly", "fuzz", "run", "--fuzz-dir", V + "/fuzz", target, corpus, "--",
                        f"-runs={runs}", f"-seed={seed if seed else 1}", f"-max_len={max_len}", "-len_control=0",
                        "-malloc_limit_mb=512", "-rss_limit_mb=6000", "-timeout=60", "-print_final_stats=1", f"-artifact_prefix={art}"],
                       cwd=V + "/harness", env=env, capture_output=True, text=True)
    out = r.stderr + r.stdout
    stat = lambda k: (re.findall(rf"stat::{k}:\s+(\d+)", out) or ["0"])[-1]
    cov = (re.findall(r"cov: (\d+)", out) or ["0"])[-1]
    res = {"target": target, "runs_requested": runs, "executed_units": int(stat("number_of_executed_units")), "coverage_edges": int(cov),
           "corpus_files": len(os.listdir(corpus)), "wall_s": round(time.time() - t, 1), "exit": r.returncode}
    results.append(res)
    print(f"[{prop}:fuzz:{target}] executed={res['executed_units']} cov={cov} corpus={res['corpus_files']} wall={res['wall_s']}s exit={r.returncode}")
    new = sorted(set(os.listdir(art)) - before)
    crash = [a for a in new if a.startswith(("crash-", "oom-", "leak-"))]
    if r.returncode != 0 and crash:
        msg = [l for l in out.splitlines() if "panicked" in l or "VIOLATION" in l or "ERROR" in l][:3]
        print(f"fuzz target {target} crashed: {' | '.join(msg)[:400]}")
        print(f"VIOLATION property={prop} replay={art}{crash[0]}")
        res["crash"] = art + crash[0]
        break
    if r.returncode != 0 and not crash:
        print(f"[{prop}:fuzz:{target}] libFuzzer exited {r.returncode} without an artifact (timeout/OOM budget): inconclusive, not a violation")
ev = f"{V}/evidence/{prop}.json"
try:
    e = json.load(open(ev)); e["coverage"]["fuzz"] = results; json.dump(e, open(ev, "w"), indent=1)
except Exception as ex:
    print("could not extend evidence:", ex)
sys.exit(1 if any("crash" in r for r in results) else 0)
