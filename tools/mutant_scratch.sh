#!/bin/bash
# usage: tools/mutant_scratch.sh <patch.diff> <PROP> [PROP...]
# Like tools/mutant.sh, but works in a private scratch copy of /repo + /verif/harness (default /tmp/vmutS, kept
# between calls for incremental builds; remove it when done) so that /repo, /verif/evidence and any background
# run are left alone.  For every violation the replay file is re-run against the changed build (must fail
# again) and against the unchanged build in /verif/harness (must pass).
set -u
PATCH="$(readlink -f "$1")"; shift
S=${VSCR:-/tmp/vmutS}
mkdir -p $S/out
rsync -a --delete --exclude target --exclude .git/worktrees /repo/ $S/repo/
rsync -a --exclude target /verif/harness/ $S/harness/
sed -i "s|path = \"/repo\"|path = \"$S/repo\"|" $S/harness/Cargo.toml
cd $S/repo || exit 2
git checkout -q -- . ; git clean -fdq src
if ! git apply "$PATCH"; then echo "patch does not apply" >&2; exit 2; fi
(cd $S/harness && CARGO_NET_OFFLINE=true cargo build --release --offline >$S/build.log 2>&1) || { echo "BUILD-FAILED"; tail -5 $S/build.log; git checkout -q -- .; exit 2; }
for P in "$@"; do
  OUT=$(VERIF_DIR=/verif VERIF_OUT=$S/out $S/harness/target/release/vcheck $P 2>&1); RC=$?
  RP=$(echo "$OUT" | grep '^VIOLATION' | head -1 | sed 's/.*replay=//')
  RCHK=""
  if [ -n "$RP" ] && [ -f "$RP" ]; then
    VERIF_DIR=/verif VERIF_OUT=$S/out $S/harness/target/release/vcheck replay "$RP" >/dev/null 2>&1; A=$?
    VERIF_DIR=/verif VERIF_OUT=$S/out /verif/harness/target/release/vcheck replay "$RP" >/dev/null 2>&1; B=$?
    RCHK="replay(changed)=$A replay(unchanged)=$B"
  fi
  echo "== $P rc=$RC $RCHK: $(echo "$OUT" | grep -E '^(violation|OK|INCONCLUSIVE)' | head -2 | cut -c1-260 | tr '\n' ' ')"
done
git checkout -q -- . ; git clean -fdq src
