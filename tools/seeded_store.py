#!/usr/bin/env python3
"""usage: seeded_store.py <ID> <caught_by comma list> <missed_by comma list or -> [note]  - copies a verified sub-agent mutant into /verif/seeded/<ID>/"""
import json,sys,shutil,os,glob
id=sys.argv[1]; caught=[x for x in sys.argv[2].split(',') if x and x!='-']; missed=[x for x in sys.argv[3].split(',') if x and x!='-']
note=sys.argv[4] if len(sys.argv)>4 else ''
src=os.environ.get('OUTBASE','/tmp/wtout')+'/'+id; dst='/verif/seeded/'+id+os.environ.get('SUFFIX','')
os.makedirs(dst,exist_ok=True)
shutil.copy(src+'/patch.diff',dst+'/patch.diff')
for f in glob.glob(src+'/demo*'): shutil.copy(f,dst)
m=json.load(open(src+'/meta.json'))
m['verified_by_me']={'worktree':os.environ.get('WTBASE','/tmp/wt')+'/'+id+' (scratch, removed afterwards)','steps':'tools/seeded_verify.sh: demo without the change passes; git apply; cargo test --workspace --no-fail-fast --offline passes with the change; demo with the change fails; then git -C /repo apply patch.diff, ./run.sh <check> quick, git -C /repo checkout -- .','caught_by_checks':caught,'not_caught_by':missed,'note':note}
json.dump(m,open(dst+'/meta.json','w'),indent=1)
print('stored',dst,os.listdir(dst))
