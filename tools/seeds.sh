#!/bin/bash
# usage: tools/seeds.sh "<seeds>" [props...]   - runs the quick checks for several seeds, output to /tmp/vseed
SEEDS="$1"; shift
PROPS="${@:-C01 C02 C03 C04 C05 C06 C07 C08 C09 C10 C11 C12 C13 C14 C15 C16 C17 C18}"
mkdir -p /tmp/vseed; cp /verif/harness/target/release/vcheck /tmp/vseed/vcheck
for s in $SEEDS; do for p in $PROPS; do
  OUT=$(VERIF_SEED=$s VERIF_OUT=/tmp/vseed/s$s VERIF_DIR=/verif /tmp/vseed/vcheck $p 2>&1); RC=$?
  echo "seed=$s $p rc=$RC $(echo "$OUT" | grep -E '^(violation|INCONCLUSIVE)' | head -1 | cut -c1-260)"
done; done
